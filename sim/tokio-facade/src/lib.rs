//! Facade crate whose library is *named* `tokio`. Repository crates are compiled against it through the
//! shadow manifests. Everything is the real tokio 1.43.1 (one instance, shared with hyper-util and
//! tokio-util so types unify) except: `net` (in-memory simulated transport), `spawn` / `task::spawn`
//! (perturbation adaptor around every task spawned by repository code).
pub use real_tokio::*;

pub mod net {
    pub use vrt::net::{TcpListener, TcpStream};
}

pub fn spawn<F>(f: F) -> real_tokio::task::JoinHandle<F::Output>
where
    F: std::future::Future + Send + 'static,
    F::Output: Send + 'static,
{
    vrt::sched::spawn_perturbed(f)
}

pub mod task {
    pub use real_tokio::task::*;
    pub fn spawn<F>(f: F) -> real_tokio::task::JoinHandle<F::Output>
    where
        F: std::future::Future + Send + 'static,
        F::Output: Send + 'static,
    {
        vrt::sched::spawn_perturbed(f)
    }
}
