//! ebpf-sim (engine B, property C06): the repository's `linux-ebpf/ebpf_cgroup.c`, compiled natively and
//! unchanged, is run by simulated kernel threads under shuttle's seeded schedulers. A scheduling point
//! precedes every BPF helper call, so threads interleave anywhere between and inside the two hook points.
//! The maps are edited concurrently from "user space" through the agent's real `BpfObject` (over the aya
//! stand-in), and every record is read back through the real decoders.
//!
//!   VERIF_SEED, VERIF_PLAN (optional explicit plan), VERIF_OUT, VERIF_TIER

use azure_proxy_agent::redirector::BpfObject;
use serde_json::{json, Value};
use std::net::Ipv4Addr;
use std::sync::atomic::{AtomicU64, Ordering};
use std::sync::{Arc, Mutex};
use vrt::kernel::{self, SockAddrCtx, SockCommon, TaskIds, AF_INET, AF_INET6, IPPROTO_TCP, IPPROTO_UDP};
use vrt::Rng;

const WIRE: (Ipv4Addr, u16) = (Ipv4Addr::new(168, 63, 129, 16), 80);
const GA: (Ipv4Addr, u16) = (Ipv4Addr::new(168, 63, 129, 16), 32526);
const IMDS: (Ipv4Addr, u16) = (Ipv4Addr::new(169, 254, 169, 254), 80);
const PROXY: (Ipv4Addr, u16) = (Ipv4Addr::new(127, 0, 0, 1), 3080);
const AGENT_PID: u32 = 4242;

shuttle::thread_local! {
    static ME: std::cell::Cell<TaskIds> = std::cell::Cell::new(TaskIds { tgid: 0, tid: 0, uid: 0, gid: 0 });
}

static VIOLATIONS: Mutex<Vec<(String, String, u64)>> = Mutex::new(Vec::new());
static ITER: AtomicU64 = AtomicU64::new(0);
static SCHED_DIGEST: AtomicU64 = AtomicU64::new(0xcbf29ce484222325);
static HELPER_CALLS: AtomicU64 = AtomicU64::new(0);
static CONNECTS: AtomicU64 = AtomicU64::new(0);
static REDIRECTS: AtomicU64 = AtomicU64::new(0);
static RECORDS_CHECKED: AtomicU64 = AtomicU64::new(0);
static EITHER: AtomicU64 = AtomicU64::new(0);
static NEXT_PORT: AtomicU64 = AtomicU64::new(30000);
static ABORTED: AtomicU64 = AtomicU64::new(0);
static WAVE: Mutex<Option<Arc<shuttle::sync::Barrier>>> = Mutex::new(None);
/// incremented before and after every user-space map edit: a connect during which it moved overlapped an edit
static EDIT_SEQ: AtomicU64 = AtomicU64::new(0);

fn violate(class: &str, detail: String) {
    let mut v = VIOLATIONS.lock().unwrap();
    if v.len() < 20 {
        v.push((class.to_string(), detail, ITER.load(Ordering::SeqCst)));
    }
}

fn yield_hook() {
    HELPER_CALLS.fetch_add(1, Ordering::Relaxed);
    let me = ME.with(|m| m.get());
    let d = SCHED_DIGEST.load(Ordering::Relaxed);
    SCHED_DIGEST.store(d.rotate_left(5) ^ ((me.tid as u64).wrapping_mul(0x9E3779B97F4A7C15)), Ordering::Relaxed);
    // a sleep, not a bare yield: under the PCT scheduler a yield would not lower the thread's priority
    shuttle::thread::sleep(std::time::Duration::from_millis(0));
}
fn task_hook() -> TaskIds {
    ME.with(|m| m.get())
}

fn policy_key(ip: Ipv4Addr, port: u16, proto: u32) -> Vec<u8> {
    let mut key = Vec::new();
    key.extend_from_slice(&kernel::ip_to_be32(ip).to_ne_bytes());
    key.extend_from_slice(&[0u8; 12]);
    key.extend_from_slice(&(port.to_be() as u32).to_ne_bytes());
    key.extend_from_slice(&proto.to_ne_bytes());
    key
}

fn gen_plan(seed: u64, tier: &str) -> Value {
    let mut r = Rng::derive(seed, "work");
    let nprocs = 1 + r.below(8);
    let mut threads = Vec::new();
    let mut tid = 5000u64;
    for p in 0..nprocs {
        let tgid = if r.chance(1, 10) { AGENT_PID as u64 } else { 1000 + p * 37 + r.below(20) };
        // uid and gid drawn independently: uid != gid in most runs, uid 0 with gid != 0 and the reverse
        let uid = *r.pick(&[0u64, 0, 1000, 1001, 33, 65534]);
        let gid = *r.pick(&[0u64, 1000, 1001, 100, 27, 65534]);
        let nthreads = 1 + r.below(4);
        for t in 0..nthreads {
            tid += 1 + r.below(3);
            let this_tid = if t == 0 && r.chance(1, 2) { tgid } else { tid };
            let nconn = 1 + r.below(if tier == "thorough" { 12 } else { 6 });
            let mut connects = Vec::new();
            for _ in 0..nconn {
                let (ip, port, proto, family) = match r.below(12) {
                    0 | 1 => (WIRE.0, WIRE.1, IPPROTO_TCP, AF_INET),
                    2 | 3 => (IMDS.0, IMDS.1, IPPROTO_TCP, AF_INET),
                    4 => (GA.0, GA.1, IPPROTO_TCP, AF_INET),
                    5 => (WIRE.0, 8080, IPPROTO_TCP, AF_INET),                    // same ip, other port
                    6 => (Ipv4Addr::new(168, 63, 129, 17), 80, IPPROTO_TCP, AF_INET), // same port, other ip
                    7 => (IMDS.0, IMDS.1, IPPROTO_UDP, AF_INET),                   // UDP to a protected endpoint
                    8 => (WIRE.0, WIRE.1, IPPROTO_TCP, AF_INET6),                  // not IPv4
                    9 => (PROXY.0, PROXY.1, IPPROTO_TCP, AF_INET),                 // the listener itself
                    _ => (Ipv4Addr::new(10, r.below(255) as u8, r.below(255) as u8, 1 + r.below(250) as u8), *r.pick(&[80u16, 443, 22, 32526, 3080]), IPPROTO_TCP, AF_INET),
                };
                connects.push(json!({"ip": ip.to_string(), "port": port, "proto": proto, "family": family, "consume": r.chance(3, 4)}));
            }
            threads.push(json!({"tgid": tgid, "tid": this_tid, "uid": uid, "gid": gid, "connects": connects}));
        }
    }
    // a fifth of the workloads: a wave - many threads that are all between the two hook points at the same time (each
    // passes connect4, waits for the others, then reaches tcp_connect); the pending-connect map has to hold them all
    let wave = r.chance(1, 5);
    if wave {
        threads.clear();
        let n = *r.pick(&[17u64, 17, 24, 33, 64, 200]);
        for k in 0..n {
            let (ip, port) = *r.pick(&[WIRE, IMDS, GA, IMDS]);
            let uid = *r.pick(&[0u64, 1000, 33]);
            threads.push(json!({"tgid": 2000 + k / 4, "tid": 9000 + k, "uid": uid, "gid": *r.pick(&[0u64, 1000, 27]), "connects": [{"ip": ip.to_string(), "port": port, "proto": IPPROTO_TCP, "family": AF_INET, "consume": true}]}));
        }
    }
    let mut edits = Vec::new();
    for _ in 0..if wave { 0 } else { r.below(6) } {
        edits.push(json!({"ep": *r.pick(&["wire", "imds", "ga"]), "redirect": r.chance(1, 2)}));
    }
    // a quarter of the non-wave workloads: now and then the second hook never runs for a connect that passed the first
    // (the probe was missed, the attempt was abandoned), and the thread goes on to its next connect, which is to a
    // protected endpoint: its record must describe THAT connect, not the abandoned one. (Drawn from a stream of its
    // own; these workloads carry no policy edits, so "protected" is not in question. What the unchanged program does
    // when the next connect is to an unprotected address - the pending entry of the abandoned attempt becomes a record
    // for it - is outside the property's quantifier, where every attempt passes both hook points: DESIGN 12.3.)
    let mut ra = Rng::derive(seed, "abort");
    if !wave && ra.chance(1, 4) {
        edits.clear();
        for t in threads.iter_mut() {
            let cs = t["connects"].as_array_mut().unwrap();
            let mut prev_aborted = false;
            for c in cs.iter_mut() {
                if prev_aborted {
                    let (ip, port) = *ra.pick(&[WIRE, IMDS, GA]);
                    c["ip"] = json!(ip.to_string());
                    c["port"] = json!(port);
                    c["proto"] = json!(IPPROTO_TCP);
                    c["family"] = json!(AF_INET);
                }
                prev_aborted = ra.chance(1, 4);
                if prev_aborted {
                    c["abort"] = json!(true);
                }
            }
        }
    }
    // (the skip map only ever receives the agent's own pid, at start-up: it is not edited concurrently)
    json!({
        "scenario": "ebpf:C06", "seed": seed, "threads": threads, "edits": edits, "wave": wave,
        "scheduler": *r.pick(&["random", "random", "pct"]), "pct_depth": 1 + r.below(4),
        "iterations": if wave { if tier == "thorough" { 20 } else { 6 } } else if tier == "thorough" { 400 } else { 100 },
    })
}

struct World {
    bpf: Arc<Mutex<BpfObject>>,
    plan: Value,
}

fn setup(plan: &Value) -> Result<World, String> {
    kernel::reset();
    ebpf_native::install();
    let exe = std::env::current_exe().map_err(|e| e.to_string())?;
    let ebpf = aya_load(&exe)?;
    let mut obj = BpfObject::new(ebpf);
    // exactly what Redirector::start_internal does
    obj.update_skip_process_map(AGENT_PID).map_err(|e| e.to_string())?;
    for (name, ip, port) in [("WireServer endpoints", 0x10813FA8u32, 80u16), ("IMDS endpoints", 0xFEA9FEA9u32, 80u16), ("Host GAPlugin endpoints", 0x10813FA8u32, 32526u16)] {
        obj.update_policy_elem_bpf_map(name, PROXY.1, ip, port).map_err(|e| e.to_string())?;
    }
    obj.attach_kprobe_program().map_err(|e| e.to_string())?;
    obj.attach_cgroup_program("/".into()).map_err(|e| e.to_string())?;
    Ok(World { bpf: Arc::new(Mutex::new(obj)), plan: plan.clone() })
}

fn aya_load(exe: &std::path::Path) -> Result<verif_aya::Ebpf, String> {
    verif_aya::EbpfLoader::new().load_file(exe).map_err(|e| e.to_string())
}

fn user_space_edits(w: &World) {
    for e in w.plan["edits"].as_array().cloned().unwrap_or_default() {
        shuttle::thread::sleep(std::time::Duration::from_millis(0));
        EDIT_SEQ.fetch_add(1, Ordering::SeqCst);
        let mut b = w.bpf.lock().unwrap();
        if let Some(p) = e["skip_pid"].as_u64() {
            let _ = b.update_skip_process_map(p as u32);
            continue;
        }
        let (ip, port) = match e["ep"].as_str().unwrap_or("") {
            "wire" => (0x10813FA8u32, 80u16),
            "imds" => (0xFEA9FEA9u32, 80u16),
            _ => (0x10813FA8u32, 32526u16),
        };
        b.update_redirect_policy(ip, port, PROXY.1, e["redirect"].as_bool().unwrap_or(true));
        drop(b);
        EDIT_SEQ.fetch_add(1, Ordering::SeqCst);
    }
}

fn snapshot(ip: Ipv4Addr, port: u16, proto: u32, tgid: u32) -> (Option<Vec<u8>>, bool) {
    (kernel::map_peek(kernel::MAP_POLICY, &policy_key(ip, port, proto)), kernel::map_peek(kernel::MAP_SKIP, &tgid.to_ne_bytes()).is_some())
}

fn run_thread(w: &World, t: &Value) {
    let me = TaskIds { tgid: t["tgid"].as_u64().unwrap_or(0) as u32, tid: t["tid"].as_u64().unwrap_or(0) as u32, uid: t["uid"].as_u64().unwrap_or(0) as u32, gid: t["gid"].as_u64().unwrap_or(0) as u32 };
    ME.with(|m| m.set(me));
    for c in t["connects"].as_array().cloned().unwrap_or_default() {
        if !VIOLATIONS.lock().unwrap().is_empty() {
            return;
        }
        let ip: Ipv4Addr = c["ip"].as_str().unwrap_or("0.0.0.0").parse().unwrap();
        let port = c["port"].as_u64().unwrap_or(0) as u16;
        let proto = c["proto"].as_u64().unwrap_or(6) as u32;
        let family = c["family"].as_u64().unwrap_or(2) as u32;
        CONNECTS.fetch_add(1, Ordering::Relaxed);
        let edit_seq_at_start = EDIT_SEQ.load(Ordering::SeqCst);
        let before = snapshot(ip, port, proto, me.tgid);
        // ---- hook 1: cgroup/connect4 (IPv4 sockets only)
        let mut ctx = SockAddrCtx { user_family: family, user_ip4: kernel::ip_to_be32(ip), user_port: port.to_be() as u32, family, sock_type: if proto == IPPROTO_TCP { 1 } else { 2 }, protocol: proto };
        if family == AF_INET {
            ebpf_native::connect4(&mut ctx);
        }
        let mid = snapshot(ip, port, proto, me.tgid);
        let new_ip = kernel::be32_to_ip(ctx.user_ip4);
        let new_port = u16::from_be(ctx.user_port as u16);
        let redirected = (new_ip, new_port) != (ip, port);
        if c["abort"] == true {
            // the connect fails here: no second hook, no connection, nothing to judge; whatever the first hook left
            // behind for this thread must not leak into its next connect
            ABORTED.fetch_add(1, Ordering::Relaxed);
            continue;
        }
        let src_port = NEXT_PORT.fetch_add(1, Ordering::SeqCst) as u16;
        shuttle::thread::sleep(std::time::Duration::from_millis(0));
        let wave_barrier = WAVE.lock().unwrap().clone(); // (the guard must be gone before this thread yields)
        if let Some(b) = wave_barrier {
            b.wait();
        }
        // ---- hook 2: kprobe on tcp_connect (every TCP socket, whatever the family)
        if proto == IPPROTO_TCP {
            let sk = SockCommon { daddr: ctx.user_ip4, dport: ctx.user_port as u16, num: src_port, family: family as u16 };
            ebpf_native::kprobe(&sk);
        }
        let after = snapshot(new_ip, new_port, IPPROTO_TCP, me.tgid);
        // ---- reference
        let _ = mid;
        let stable = EDIT_SEQ.load(Ordering::SeqCst) == edit_seq_at_start && edit_seq_at_start % 2 == 0;
        let expect_redirect = proto == IPPROTO_TCP && family == AF_INET && before.0.is_some() && !before.1;
        let what = format!("pid {} tid {} uid {} gid {} connect {}:{} proto {} family {}", me.tgid, me.tid, me.uid, me.gid, ip, port, proto, family);
        if stable {
            if expect_redirect != redirected {
                violate(if redirected { "connect diverted although it is not a protected connect" } else { "protected connect not diverted to the proxy listener" }, format!("{} -> {}:{}", what, new_ip, new_port));
                continue;
            }
            if redirected && (new_ip, new_port) != PROXY {
                violate("protected connect diverted to something other than the proxy listener", format!("{} -> {}:{}", what, new_ip, new_port));
                continue;
            }
        } else {
            EITHER.fetch_add(1, Ordering::Relaxed);
        }
        if redirected {
            REDIRECTS.fetch_add(1, Ordering::Relaxed);
        }
        // ---- the record, read back through the agent's real decoder
        let rec = w.bpf.lock().unwrap().lookup_audit(src_port);
        match (redirected, rec) {
            (true, Ok(a)) => {
                RECORDS_CHECKED.fetch_add(1, Ordering::Relaxed);
                let mut bad = Vec::new();
                if a.logon_id != me.uid as u64 {
                    bad.push(format!("logon_id {} (caller's user id is {})", a.logon_id, me.uid));
                }
                if a.process_id != me.tgid {
                    bad.push(format!("process_id {} (caller's process id is {})", a.process_id, me.tgid));
                }
                if (a.is_admin == 1) != (me.uid == 0) {
                    bad.push(format!("is_root {} (caller's user id is {})", a.is_admin, me.uid));
                }
                if a.destination_ipv4_addr() != ip {
                    bad.push(format!("destination {} (asked {})", a.destination_ipv4_addr(), ip));
                }
                if a.destination_port_in_host_byte_order() != port {
                    bad.push(format!("destination port {} (asked {})", a.destination_port_in_host_byte_order(), port));
                }
                if !bad.is_empty() {
                    violate("record does not state the true caller / original destination", format!("{} source port {}: {}", what, src_port, bad.join("; ")));
                    continue;
                }
            }
            (true, Err(e)) => {
                violate("diverted connect left no record under its source port", format!("{} source port {}: {}", what, src_port, e));
                continue;
            }
            (false, Ok(a)) => {
                // untouched connects produce no record - unless the policy changed between the two hook points
                let _ = &after;
                if stable {
                    violate("record produced for a connect that was left untouched", format!("{} source port {}: logon_id {} pid {} dst {}:{}", what, src_port, a.logon_id, a.process_id, a.destination_ipv4_addr(), a.destination_port_in_host_byte_order()));
                    continue;
                }
            }
            (false, Err(_)) => {}
        }
        if c["consume"].as_bool().unwrap_or(true) {
            let _ = w.bpf.lock().unwrap().remove_audit_map_entry(src_port);
        }
    }
}

fn scenario(plan: Value) {
    ITER.fetch_add(1, Ordering::SeqCst);
    *WAVE.lock().unwrap() = if plan["wave"] == true { Some(Arc::new(shuttle::sync::Barrier::new(plan["threads"].as_array().map(|a| a.len()).unwrap_or(1)))) } else { None };
    let w = match setup(&plan) {
        Ok(w) => Arc::new(w),
        Err(e) => {
            violate("user-space setup of the maps failed", e);
            return;
        }
    };
    let mut hs = Vec::new();
    for t in plan["threads"].as_array().cloned().unwrap_or_default() {
        let w2 = w.clone();
        hs.push(shuttle::thread::spawn(move || run_thread(&w2, &t)));
    }
    let w3 = w.clone();
    hs.push(shuttle::thread::spawn(move || {
        ME.with(|m| m.set(TaskIds { tgid: AGENT_PID, tid: AGENT_PID, uid: 0, gid: 0 }));
        user_space_edits(&w3)
    }));
    for h in hs {
        let _ = h.join();
    }
    // nothing may be left behind between the hooks
    // (a thread whose LAST connect failed between the hooks legitimately leaves its pending entry behind)
    let trailing_aborts = plan["threads"].as_array().map(|a| a.iter().filter(|t| t["connects"].as_array().and_then(|c| c.last()).map(|c| c["abort"] == true).unwrap_or(false)).count()).unwrap_or(0);
    let left = kernel::map_len(kernel::MAP_LOCAL);
    if left > trailing_aborts && VIOLATIONS.lock().unwrap().is_empty() {
        violate("local (between-hooks) map entry left behind after all connects completed", format!("{} entries", left));
    }
}

fn layout_check() -> Vec<(String, String)> {
    // struct sizes seen by C must equal the array lengths the Rust side uses (1, 6, 2, 5 words) and the local
    // entry must be 6 words
    let mut v = Vec::new();
    for (which, name, words) in [(0, "sock_addr_skip_process_entry", 1), (1, "destination_entry", 6), (2, "sock_addr_audit_key", 2), (3, "sock_addr_audit_entry", 5), (4, "sock_addr_local_entry", 6)] {
        let sz = ebpf_native::struct_size(which);
        if sz != words * 4 {
            v.push(("kernel struct layout differs from the user-space encoding".to_string(), format!("{} is {} bytes in C, {} bytes in Rust", name, sz, words * 4)));
        }
    }
    let defs = ebpf_native::map_defs();
    let want = [(false, 4usize, 4usize), (false, 24, 24), (true, 8, 20), (true, 8, 24)];
    for (i, d) in defs.iter().enumerate() {
        if (d.lru, d.key_size, d.value_size) != want[i] {
            v.push(("map declaration differs from what user space expects".to_string(), format!("{}: lru={} key={} value={}", kernel::MAP_NAMES[i], d.lru, d.key_size, d.value_size)));
        }
    }
    v
}

fn main() {
    let seed: u64 = std::env::var("VERIF_SEED").ok().and_then(|v| v.parse().ok()).unwrap_or(1);
    let tier = std::env::var("VERIF_TIER").unwrap_or_else(|_| "quick".into());
    vrt::init(seed);
    vrt::with(|w| w.keep_events = false);
    let plan: Value = match std::env::var("VERIF_PLAN") {
        Ok(p) => serde_json::from_slice(&std::fs::read(p).expect("plan")).expect("plan json"),
        Err(_) => gen_plan(seed, &tier),
    };
    ebpf_native::install();
    ebpf_native::set_yield_hook(yield_hook);
    ebpf_native::set_task_hook(task_hook);
    for (c, d) in layout_check() {
        violate(&c, d);
    }
    let iterations = plan["iterations"].as_u64().unwrap_or(100) as usize;
    let t0 = std::time::Instant::now();
    let mut cfg = shuttle::Config::new();
    cfg.failure_persistence = shuttle::FailurePersistence::None;
    cfg.max_steps = shuttle::MaxSteps::FailAfter(2_000_000);
    let p2 = plan.clone();
    let body = move || {
        if VIOLATIONS.lock().unwrap().is_empty() {
            scenario(p2.clone())
        }
    };
    let res = std::panic::catch_unwind(std::panic::AssertUnwindSafe(|| {
        if plan["scheduler"] == "pct" {
            let s = shuttle::scheduler::PctScheduler::new_from_seed(seed, plan["pct_depth"].as_u64().unwrap_or(2) as usize, iterations);
            shuttle::Runner::new(s, cfg).run(body);
        } else {
            let s = shuttle::scheduler::RandomScheduler::new_from_seed(seed, iterations);
            shuttle::Runner::new(s, cfg).run(body);
        }
    }));
    let mut notes: Vec<String> = Vec::new();
    if let Err(e) = res {
        let msg = e.downcast_ref::<String>().cloned().or_else(|| e.downcast_ref::<&str>().map(|s| s.to_string())).unwrap_or_default();
        notes.push(format!("HARNESS-PANIC {}", msg.chars().take(300).collect::<String>()));
    }
    let viol = VIOLATIONS.lock().unwrap().clone();
    let violations: Vec<Value> = viol.iter().map(|(c, d, it)| json!({"property": "C06", "class": c, "detail": format!("{} (schedule #{} of seed {})", d, it, seed), "seq": it})).collect();
    let out = json!({
        "scenario": "ebpf:C06", "seed": seed,
        "verdict": if violations.is_empty() { "ok" } else { "violation" },
        "violations": violations,
        "digest": format!("{:016x}", SCHED_DIGEST.load(Ordering::SeqCst) ^ CONNECTS.load(Ordering::SeqCst)),
        "sched_digest": format!("{:016x}", SCHED_DIGEST.load(Ordering::SeqCst)),
        "events": HELPER_CALLS.load(Ordering::SeqCst),
        "sim_ms": 0,
        "counters": {"sched.polls": HELPER_CALLS.load(Ordering::SeqCst), "fault.kernel.connect_abandoned_between_hooks": ABORTED.load(Ordering::Relaxed), "fault.kernel.policy_edit_during_connects": plan["edits"].as_array().map(|a| a.len()).unwrap_or(0), "fault.kernel.wave_of_pending_connects": if plan["wave"] == true { 1 } else { 0 }},
        "stats": {"c06.schedules": ITER.load(Ordering::SeqCst), "c06.connects": CONNECTS.load(Ordering::SeqCst), "c06.diverted": REDIRECTS.load(Ordering::SeqCst), "c06.records_read_back": RECORDS_CHECKED.load(Ordering::SeqCst), "c06.connects_abandoned_between_hooks": ABORTED.load(Ordering::Relaxed), "c06.wave_workloads": if plan["wave"] == true { 1 } else { 0 }, "c06.connects_overlapping_a_policy_edit": EITHER.load(Ordering::SeqCst), "c06.helper_calls": HELPER_CALLS.load(Ordering::SeqCst)},
        "notes": notes, "panics": [],
        "progress": {"connects": CONNECTS.load(Ordering::SeqCst), "schedules": ITER.load(Ordering::SeqCst)},
        "plan": plan,
        "samples": [{"threads": plan["threads"].as_array().map(|a| a.len()), "first_thread": plan["threads"][0], "edits": plan["edits"], "scheduler": plan["scheduler"]}],
        "tail": [], "wall_ms": t0.elapsed().as_millis() as u64,
    });
    let bytes = serde_json::to_vec(&out).unwrap();
    match std::env::var("VERIF_OUT") {
        Ok(p) => std::fs::write(p, bytes).expect("write result"),
        Err(_) => println!("{}", String::from_utf8_lossy(&bytes)),
    }
}
