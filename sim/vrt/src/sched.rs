//! Seeded scheduling perturbation. Every task spawned by repository code is wrapped in `Perturb`;
//! on each poll the adaptor may poll the task now, push it behind everything currently runnable
//! ("hop"), or hold it for a few virtual milliseconds. The choice is drawn from stream `sched`.
//!
//! knobs (ppm = parts per million):
//!   sched.delay_ppm, sched.delay_max_ms, sched.hop_ppm, sched.hop_max,
//!   sched.victim_a / sched.victim_b (task indexes that are always delayed: PCT-like), sched.victim_ms

use std::future::Future;
use std::pin::Pin;
use std::sync::atomic::{AtomicU64, Ordering};
use std::task::{Context, Poll};
use std::time::Duration;

static NEXT_TASK: AtomicU64 = AtomicU64::new(0);

pub fn reset() {
    NEXT_TASK.store(0, Ordering::SeqCst);
}
pub fn tasks_spawned() -> u64 {
    NEXT_TASK.load(Ordering::SeqCst)
}

pub struct Perturb<F> {
    inner: Pin<Box<F>>,
    idx: u64,
    sleep: Option<Pin<Box<tokio::time::Sleep>>>,
    hops: u32,
}

enum Choice {
    Run,
    Hop(u32),
    Delay(u64),
}

fn choose(idx: u64) -> Choice {
    if !crate::active() {
        return Choice::Run;
    }
    crate::with(|w| {
        w.sched_digest = w.sched_digest.rotate_left(5) ^ (idx.wrapping_mul(0x9E3779B97F4A7C15));
        w.count_n("sched.polls", 1);
        let va = w.knob("sched.victim_a", -1);
        let vb = w.knob("sched.victim_b", -1);
        if idx as i64 == va || idx as i64 == vb {
            let vm = w.knob("sched.victim_ms", 20).max(1) as u64;
            // a victim is delayed on (almost) every resumption
            if w.rng("sched").below(4) != 0 {
                w.count_n("sched.victim_delays", 1);
                return Choice::Delay(1 + w.rng("sched").below(vm));
            }
        }
        let d = w.knob("sched.delay_ppm", 0);
        let h = w.knob("sched.hop_ppm", 0);
        if d == 0 && h == 0 {
            return Choice::Run;
        }
        let r = w.rng("sched").below(1_000_000) as i64;
        if r < d {
            let m = w.knob("sched.delay_max_ms", 3).max(1) as u64;
            w.count_n("sched.delays", 1);
            Choice::Delay(1 + w.rng("sched").below(m))
        } else if r < d + h {
            let m = w.knob("sched.hop_max", 3).max(1) as u64;
            w.count_n("sched.hops", 1);
            Choice::Hop(1 + w.rng("sched").below(m) as u32)
        } else {
            Choice::Run
        }
    })
}

impl<F: Future> Future for Perturb<F> {
    type Output = F::Output;
    fn poll(mut self: Pin<&mut Self>, cx: &mut Context<'_>) -> Poll<F::Output> {
        if let Some(s) = self.sleep.as_mut() {
            if s.as_mut().poll(cx).is_pending() {
                return Poll::Pending;
            }
            self.sleep = None;
        } else if self.hops > 0 {
            self.hops -= 1;
            cx.waker().wake_by_ref();
            return Poll::Pending;
        } else {
            match choose(self.idx) {
                Choice::Run => {}
                Choice::Hop(n) => {
                    self.hops = n - 1;
                    cx.waker().wake_by_ref();
                    return Poll::Pending;
                }
                Choice::Delay(ms) => {
                    let mut s = Box::pin(tokio::time::sleep(Duration::from_millis(ms)));
                    if s.as_mut().poll(cx).is_pending() {
                        self.sleep = Some(s);
                        return Poll::Pending;
                    }
                }
            }
        }
        // which spawned task is running (for event lines that want to say who did something)
        let prev = CURRENT_TASK.swap(self.idx as i64, Ordering::SeqCst);
        let r = self.inner.as_mut().poll(cx);
        CURRENT_TASK.store(prev, Ordering::SeqCst);
        r
    }
}

static CURRENT_TASK: std::sync::atomic::AtomicI64 = std::sync::atomic::AtomicI64::new(-1);
/// index of the spawned task being polled right now (-1 outside any spawned task)
pub fn current_task() -> i64 {
    CURRENT_TASK.load(Ordering::SeqCst)
}

pub fn spawn_perturbed<F>(f: F) -> tokio::task::JoinHandle<F::Output>
where
    F: Future + Send + 'static,
    F::Output: Send + 'static,
{
    let idx = NEXT_TASK.fetch_add(1, Ordering::SeqCst);
    tokio::spawn(Perturb { inner: Box::pin(f), idx, sleep: None, hops: 0 })
}
