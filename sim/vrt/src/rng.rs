//! SplitMix64-seeded xoshiro256** streams, derived by name from the run seed.

#[derive(Clone, Debug)]
pub struct Rng {
    s: [u64; 4],
}

fn splitmix(x: &mut u64) -> u64 {
    *x = x.wrapping_add(0x9E3779B97F4A7C15);
    let mut z = *x;
    z = (z ^ (z >> 30)).wrapping_mul(0xBF58476D1CE4E5B9);
    z = (z ^ (z >> 27)).wrapping_mul(0x94D049BB133111EB);
    z ^ (z >> 31)
}

pub fn mix(seed: u64, i: u64) -> u64 {
    let mut x = seed ^ i.wrapping_mul(0xD6E8FEB86659FD93);
    splitmix(&mut x)
}

impl Rng {
    pub fn new(seed: u64) -> Rng {
        let mut x = seed;
        Rng { s: [splitmix(&mut x), splitmix(&mut x), splitmix(&mut x), splitmix(&mut x)] }
    }
    pub fn derive(seed: u64, name: &str) -> Rng {
        let mut h: u64 = 0xcbf29ce484222325;
        for b in name.bytes() {
            h ^= b as u64;
            h = h.wrapping_mul(0x100000001b3);
        }
        Rng::new(seed ^ h.rotate_left(17))
    }
    pub fn next(&mut self) -> u64 {
        let r = self.s[1].wrapping_mul(5).rotate_left(7).wrapping_mul(9);
        let t = self.s[1] << 17;
        self.s[2] ^= self.s[0];
        self.s[3] ^= self.s[1];
        self.s[1] ^= self.s[2];
        self.s[0] ^= self.s[3];
        self.s[2] ^= t;
        self.s[3] = self.s[3].rotate_left(45);
        r
    }
    pub fn below(&mut self, n: u64) -> u64 {
        if n == 0 {
            return 0;
        }
        self.next() % n
    }
    pub fn range(&mut self, lo: u64, hi_incl: u64) -> u64 {
        lo + self.below(hi_incl - lo + 1)
    }
    pub fn chance(&mut self, num: u64, den: u64) -> bool {
        self.below(den) < num
    }
    pub fn pick<'a, T>(&mut self, v: &'a [T]) -> &'a T {
        &v[self.below(v.len() as u64) as usize]
    }
    pub fn fill(&mut self, buf: &mut [u8]) {
        for c in buf.chunks_mut(8) {
            let b = self.next().to_le_bytes();
            c.copy_from_slice(&b[..c.len()]);
        }
    }
    pub fn shuffle<T>(&mut self, v: &mut [T]) {
        for i in (1..v.len()).rev() {
            let j = self.below(i as u64 + 1) as usize;
            v.swap(i, j);
        }
    }
}
