//! verif-rt: the simulator core shared by the tokio facade, the aya / sysinfo / uzers stand-ins and
//! the harness. Everything nondeterministic that the properties depend on is decided here from named
//! PRNG streams derived from one run seed.
//!
//! Discipline: logging never draws from a PRNG stream and never reads a real clock.

pub mod kernel;
pub mod net;
pub mod procs;
pub mod rng;
pub mod sched;
pub mod time;

use std::collections::BTreeMap;
use std::sync::Mutex;

pub use rng::Rng;

/// One entry of the canonical event log.
#[derive(Clone, Debug)]
pub struct Event {
    pub seq: u64,
    pub t_ns: u64,
    pub kind: &'static str,
    pub text: String,
}

pub struct World {
    pub seed: u64,
    rngs: BTreeMap<&'static str, Rng>,
    pub events: Vec<Event>,
    pub keep_events: bool,
    pub digest: u64,
    pub sched_digest: u64,
    pub seq: u64,
    pub counters: BTreeMap<String, u64>,
    /// knobs: free-form numeric parameters of the run (probabilities in ppm, sizes, ...)
    pub knobs: BTreeMap<String, i64>,
    /// armed buggify sites with a remaining-fire budget
    pub buggify: BTreeMap<String, i64>,
}

static WORLD: Mutex<Option<World>> = Mutex::new(None);

/// Called for every logged event (kind, text), while the world lock is held: the hook must not call back
/// into `vrt::with`. Used for crash-point snapshots.
pub static EVENT_HOOK: Mutex<Option<fn(&'static str, &str)>> = Mutex::new(None);

fn fnv(mut h: u64, bytes: &[u8]) -> u64 {
    for b in bytes {
        h ^= *b as u64;
        h = h.wrapping_mul(0x100000001b3);
    }
    h
}

/// Initialise the world for one run. Must be called before anything else.
pub fn init(seed: u64) {
    let mut g = WORLD.lock().unwrap_or_else(|e| e.into_inner());
    *g = Some(World {
        seed,
        rngs: BTreeMap::new(),
        events: Vec::new(),
        keep_events: true,
        digest: 0xcbf29ce484222325,
        sched_digest: 0xcbf29ce484222325,
        seq: 0,
        counters: BTreeMap::new(),
        knobs: BTreeMap::new(),
        buggify: BTreeMap::new(),
    });
    drop(g);
    net::reset();
    kernel::reset();
    procs::reset();
}

pub fn with<R>(f: impl FnOnce(&mut World) -> R) -> R {
    let mut g = WORLD.lock().unwrap_or_else(|e| e.into_inner());
    f(g.as_mut().expect("vrt::init not called"))
}

/// like `with` but returns None when the world is absent or the lock is held (used from libc seams)
pub fn try_with<R>(f: impl FnOnce(&mut World) -> R) -> Option<R> {
    match WORLD.try_lock() {
        Ok(mut g) => g.as_mut().map(f),
        Err(_) => None,
    }
}

pub fn active() -> bool {
    match WORLD.try_lock() {
        Ok(g) => g.is_some(),
        Err(_) => true,
    }
}

impl World {
    pub fn rng(&mut self, name: &'static str) -> &mut Rng {
        let seed = self.seed;
        self.rngs.entry(name).or_insert_with(|| Rng::derive(seed, name))
    }
    pub fn knob(&self, name: &str, default: i64) -> i64 {
        *self.knobs.get(name).unwrap_or(&default)
    }
    pub fn count(&mut self, name: &str) {
        *self.counters.entry(name.to_string()).or_insert(0) += 1;
    }
    pub fn count_n(&mut self, name: &str, n: u64) {
        *self.counters.entry(name.to_string()).or_insert(0) += n;
    }
    pub fn log(&mut self, kind: &'static str, text: String) {
        let t_ns = time::now_ns_nolock();
        self.seq += 1;
        let mut h = self.digest;
        h = fnv(h, &t_ns.to_le_bytes());
        h = fnv(h, kind.as_bytes());
        h = fnv(h, text.as_bytes());
        self.digest = h;
        // schedule digest: kinds only, in order (which seam event happened after which)
        self.sched_digest = fnv(self.sched_digest, kind.as_bytes());
        if let Ok(h) = EVENT_HOOK.try_lock() {
            if let Some(f) = *h {
                f(kind, &text);
            }
        }
        if self.keep_events {
            let seq = self.seq;
            self.events.push(Event { seq, t_ns, kind, text });
        }
    }
    /// cooperative fault point: fires when armed and budget left
    pub fn buggify(&mut self, site: &str) -> bool {
        let fire = match self.buggify.get_mut(site) {
            Some(n) if *n > 0 => {
                *n -= 1;
                true
            }
            _ => false,
        };
        if fire {
            self.count(&format!("fault.{}", site));
        }
        fire
    }
}

pub fn log(kind: &'static str, text: String) {
    with(|w| w.log(kind, text));
}
pub fn count(name: &str) {
    with(|w| w.count(name));
}
pub fn knob(name: &str, default: i64) -> i64 {
    with(|w| w.knob(name, default))
}
pub fn set_knob(name: &str, v: i64) {
    with(|w| {
        w.knobs.insert(name.to_string(), v);
    });
}
pub fn arm(site: &str, times: i64) {
    with(|w| {
        w.buggify.insert(site.to_string(), times);
    });
}
pub fn buggify(site: &str) -> bool {
    with(|w| w.buggify(site))
}
/// draw from a named stream
pub fn below(stream: &'static str, n: u64) -> u64 {
    with(|w| w.rng(stream).below(n))
}
/// true with probability ppm/1e6, drawn from a named stream
pub fn chance(stream: &'static str, ppm: i64) -> bool {
    if ppm <= 0 {
        return false;
    }
    with(|w| (w.rng(stream).below(1_000_000) as i64) < ppm)
}
