//! Virtual clocks. Monotonic time = tokio's paused clock. Wall-clock (realtime) = epoch + monotonic +
//! an offset that clock faults move (jumps, skew), plus a tiny strictly increasing per-read increment so
//! two successive readings differ as on real hardware; a "coarse clock" fault truncates readings to a
//! resolution instead.

use std::sync::atomic::{AtomicBool, AtomicI64, AtomicU64, Ordering};
use std::sync::Mutex;

pub const EPOCH_WALL_NS: i128 = 1_800_000_000_000_000_000; // 2027-01-15T08:00:00Z
pub const EPOCH_MONO_NS: i128 = 1_000_000_000_000;

static SIM_ON: AtomicBool = AtomicBool::new(false);
static T0: Mutex<Option<tokio::time::Instant>> = Mutex::new(None);
static WALL_OFFSET_NS: AtomicI64 = AtomicI64::new(0);
static WALL_READS: AtomicU64 = AtomicU64::new(0);
/// 0 = fine-grained; otherwise realtime readings are truncated to a multiple of this many ns
static COARSE_NS: AtomicU64 = AtomicU64::new(0);
static MAX_WALL_SEEN: AtomicI64 = AtomicI64::new(i64::MIN);

/// start virtual time; call from inside the (paused) runtime
pub fn start() {
    *T0.lock().unwrap() = Some(tokio::time::Instant::now());
    WALL_OFFSET_NS.store(0, Ordering::SeqCst);
    WALL_READS.store(0, Ordering::SeqCst);
    SIM_ON.store(true, Ordering::SeqCst);
}
pub fn stop() {
    SIM_ON.store(false, Ordering::SeqCst);
}
pub fn on() -> bool {
    SIM_ON.load(Ordering::SeqCst)
}

pub fn now_ns_nolock() -> u64 {
    if !on() {
        return 0;
    }
    match T0.try_lock() {
        Ok(g) => match *g {
            Some(t0) => tokio::time::Instant::now().saturating_duration_since(t0).as_nanos() as u64,
            None => 0,
        },
        Err(_) => 0,
    }
}
pub fn now_ns() -> u64 {
    now_ns_nolock()
}
pub fn now_ms() -> u64 {
    now_ns_nolock() / 1_000_000
}

/// current wall-clock reading in unix ns, *without* consuming a read increment (for oracles)
pub fn wall_now_ns() -> i128 {
    let rel = now_ns_nolock() as i128 + WALL_OFFSET_NS.load(Ordering::SeqCst) as i128;
    let res = COARSE_NS.load(Ordering::SeqCst);
    if res > 0 {
        EPOCH_WALL_NS + rel - rel.rem_euclid(res as i128)
    } else {
        EPOCH_WALL_NS + rel + 137 + (WALL_READS.load(Ordering::SeqCst) as i128) * 1009
    }
}
pub fn max_wall_seen_ns() -> i128 {
    EPOCH_WALL_NS + MAX_WALL_SEEN.load(Ordering::SeqCst) as i128
}

pub fn jump_wall(delta_ns: i64) {
    WALL_OFFSET_NS.fetch_add(delta_ns, Ordering::SeqCst);
    crate::with(|w| {
        w.count("fault.clock_jump");
        w.log("clock", format!("wall jump {} ns", delta_ns));
    });
}
pub fn set_coarse(res_ns: u64) {
    COARSE_NS.store(res_ns, Ordering::SeqCst);
}
pub fn coarse() -> u64 {
    COARSE_NS.load(Ordering::SeqCst)
}

/// Answer for the `clock_gettime` seam: (sec, nsec) or None to fall through to the real clock.
pub fn virt_clock(realtime: bool) -> Option<(i64, i64)> {
    if !on() {
        return None;
    }
    let el = {
        let g = T0.try_lock().ok()?;
        let t0 = (*g)?;
        tokio::time::Instant::now().saturating_duration_since(t0).as_nanos() as i128
    };
    let ns = if realtime {
        let rel = el + WALL_OFFSET_NS.load(Ordering::SeqCst) as i128;
        let res = COARSE_NS.load(Ordering::SeqCst);
        let rel = if res > 0 {
            rel - rel.rem_euclid(res as i128)
        } else {
            // strictly increasing readings that are never "round": +1009 ns per read, +137
            let k = WALL_READS.fetch_add(1, Ordering::SeqCst);
            rel + 137 + (k as i128) * 1009
        };
        let r64 = rel as i64;
        let mut cur = MAX_WALL_SEEN.load(Ordering::SeqCst);
        while r64 > cur {
            match MAX_WALL_SEEN.compare_exchange(cur, r64, Ordering::SeqCst, Ordering::SeqCst) {
                Ok(_) => break,
                Err(c) => cur = c,
            }
        }
        EPOCH_WALL_NS + rel
    } else {
        EPOCH_MONO_NS + el
    };
    Some(((ns / 1_000_000_000) as i64, (ns % 1_000_000_000) as i64))
}
