//! In-memory simulated TCP: listeners, connections made of two half-duplex pipes, seeded fragmentation
//! and latency on a coarse (millisecond) grid, injectable faults. Implements the subset of
//! `tokio::net::{TcpListener, TcpStream}` the agent uses. Honours TCP's contract: bytes are delivered
//! in order, exactly once, or the connection is reset.

use crate::kernel::{self, TaskIds};
use std::collections::{BTreeMap, VecDeque};
use std::future::Future;
use std::io;
use std::net::{Ipv4Addr, SocketAddr, SocketAddrV4};
use std::os::fd::{AsRawFd, FromRawFd};
use std::pin::Pin;
use std::sync::{Arc, Mutex};
use std::task::{Context, Poll, Waker};
use std::time::Duration;
use tokio::io::{AsyncRead, AsyncWrite, ReadBuf};
use tokio::time::Instant;

struct Seg {
    at: Instant,
    data: Vec<u8>,
    off: usize,
}

#[derive(Default)]
struct Pipe {
    segs: VecDeque<Seg>,
    last_at: Option<Instant>,
    writer_closed: bool,
    reader_gone: bool,
    reset: bool,
    read_waker: Option<Waker>,
    written: u64,
    read: u64,
    // armed faults
    reset_after: Option<u64>,
    close_after: Option<u64>,
    stall_at: Option<(u64, u64)>, // (byte offset, ms)
}

struct ConnShared {
    id: u64,
    pipes: [Pipe; 2],
}

#[derive(Clone, Debug)]
pub struct ConnInfo {
    pub id: u64,
    pub initiator: TaskIds,
    pub src: SocketAddrV4,
    pub requested_dst: SocketAddrV4,
    pub actual_dst: SocketAddrV4,
    pub redirected: bool,
    pub opened_ns: u64,
    pub bytes_out: u64, // initiator -> acceptor
    pub bytes_in: u64,  // acceptor -> initiator
    pub accepted: bool,
    pub refused: bool,
    /// connection-level faults attached to this connection when it was opened
    pub faults: Vec<String>,
}

#[derive(Clone, Debug)]
pub enum FaultKind {
    Refuse,
    /// reset the whole connection once `bytes` bytes have been written on `pipe` (0 = initiator->acceptor)
    ResetAfter { pipe: usize, bytes: u64 },
    /// the writer side of `pipe` is closed (FIN) after `bytes` bytes; later writes are discarded
    CloseAfter { pipe: usize, bytes: u64 },
    /// delivery on `pipe` stalls for `ms` once `bytes` bytes have been written
    StallAt { pipe: usize, bytes: u64, ms: u64 },
}

#[derive(Clone, Debug)]
pub struct ArmedFault {
    pub dst: Option<String>,
    pub agent_initiated: Option<bool>,
    pub kind: FaultKind,
}

struct ListenerState {
    queue: VecDeque<(TcpStream, SocketAddr)>,
    waker: Option<Waker>,
    accept_errors: u32,
}

#[derive(Default)]
struct NetState {
    listeners: BTreeMap<String, ListenerState>,
    conns: Vec<ConnInfo>,
    next_conn: u64,
    armed: Vec<ArmedFault>,
    std_table: BTreeMap<i32, (TcpStream, i32)>,
}

static NET: Mutex<Option<NetState>> = Mutex::new(None);

pub fn reset() {
    *NET.lock().unwrap_or_else(|e| e.into_inner()) = Some(NetState::default());
}
fn with<R>(f: impl FnOnce(&mut NetState) -> R) -> R {
    let mut g = NET.lock().unwrap_or_else(|e| e.into_inner());
    if g.is_none() {
        *g = Some(NetState::default());
    }
    f(g.as_mut().unwrap())
}

pub fn arm_fault(f: ArmedFault) {
    with(|n| n.armed.push(f));
}
pub fn clear_faults() {
    with(|n| n.armed.clear());
}
pub fn conn_infos() -> Vec<ConnInfo> {
    with(|n| n.conns.clone())
}
pub fn conn_info(id: u64) -> Option<ConnInfo> {
    with(|n| n.conns.iter().find(|c| c.id == id).cloned())
}
pub fn arm_accept_errors(addr: &str, n: u32) {
    with(|s| {
        if let Some(l) = s.listeners.get_mut(addr) {
            l.accept_errors = n;
        }
    });
}
pub fn listener_bound(addr: &str) -> bool {
    with(|s| s.listeners.contains_key(addr))
}

// ------------------------------------------------------------------------------------------------
pub struct TcpListener {
    addr: String,
}

impl TcpListener {
    pub async fn bind<A: AsRef<str>>(addr: A) -> io::Result<TcpListener> {
        let addr = addr.as_ref().to_string();
        if crate::active() && crate::buggify(&format!("bind_in_use.{}", addr)) {
            crate::log("net", format!("bind {} -> AddrInUse (injected)", addr));
            return Err(io::Error::new(io::ErrorKind::AddrInUse, "Address already in use (os error 98)"));
        }
        if crate::active() && crate::buggify(&format!("bind_denied.{}", addr)) {
            crate::log("net", format!("bind {} -> PermissionDenied (injected)", addr));
            return Err(io::Error::new(io::ErrorKind::PermissionDenied, "Permission denied (os error 13)"));
        }
        let r = with(|n| {
            if n.listeners.contains_key(&addr) {
                return Err(io::Error::new(io::ErrorKind::AddrInUse, "Address already in use (os error 98)"));
            }
            n.listeners.insert(addr.clone(), ListenerState { queue: VecDeque::new(), waker: None, accept_errors: 0 });
            Ok(())
        });
        if crate::active() {
            crate::log("net", format!("bind {} -> {}", addr, if r.is_ok() { "ok" } else { "AddrInUse" }));
        }
        r.map(|_| TcpListener { addr })
    }

    pub async fn accept(&self) -> io::Result<(TcpStream, SocketAddr)> {
        std::future::poll_fn(|cx| self.poll_accept(cx)).await
    }

    fn poll_accept(&self, cx: &mut Context<'_>) -> Poll<io::Result<(TcpStream, SocketAddr)>> {
        let r = with(|n| {
            let l = match n.listeners.get_mut(&self.addr) {
                Some(l) => l,
                None => return Poll::Ready(Err(io::Error::new(io::ErrorKind::Other, "listener closed"))),
            };
            if !l.queue.is_empty() && l.accept_errors > 0 {
                l.accept_errors -= 1;
                // the pending connection is dropped (as with ECONNABORTED)
                let _ = l.queue.pop_front();
                return Poll::Ready(Err(io::Error::new(io::ErrorKind::ConnectionAborted, "Software caused connection abort (os error 103)")));
            }
            match l.queue.pop_front() {
                Some(x) => Poll::Ready(Ok(x)),
                None => {
                    l.waker = Some(cx.waker().clone());
                    Poll::Pending
                }
            }
        });
        if let Poll::Ready(Ok((s, a))) = &r {
            let id = s.id();
            with(|n| {
                if let Some(c) = n.conns.iter_mut().find(|c| c.id == id) {
                    c.accepted = true;
                }
            });
            if crate::active() {
                crate::log("net", format!("accept {} conn={} from={}", self.addr, id, a));
            }
        } else if let Poll::Ready(Err(_)) = &r {
            if crate::active() {
                crate::with(|w| {
                    w.count("fault.accept_error");
                    w.log("net", format!("accept {} -> error (injected)", self.addr));
                });
            }
        }
        r
    }
    pub fn local_addr(&self) -> io::Result<SocketAddr> {
        self.addr.parse().map_err(|_| io::Error::new(io::ErrorKind::Other, "bad addr"))
    }
}

impl Drop for TcpListener {
    fn drop(&mut self) {
        with(|n| {
            n.listeners.remove(&self.addr);
        });
    }
}

// ------------------------------------------------------------------------------------------------
pub struct TcpStream {
    shared: Arc<Mutex<ConnShared>>,
    side: usize, // 0 = initiator, 1 = acceptor
    sleep: Option<Pin<Box<tokio::time::Sleep>>>,
    local: SocketAddrV4,
    peer: SocketAddrV4,
    release_port: Option<u16>,
}

fn parse_v4(addr: &str) -> io::Result<SocketAddrV4> {
    addr.parse::<SocketAddrV4>().map_err(|_| io::Error::new(io::ErrorKind::InvalidInput, format!("invalid socket address: {}", addr)))
}

impl TcpStream {
    pub fn id(&self) -> u64 {
        self.shared.lock().unwrap().id
    }

    /// `connect` as called by the agent itself (the connecting process is the agent).
    pub async fn connect<A: AsRef<str>>(addr: A) -> io::Result<TcpStream> {
        let task = TaskIds { tgid: crate::procs::agent_pid(), tid: crate::procs::agent_pid(), uid: 0, gid: 0 };
        connect_as(task, kernel::IPPROTO_TCP, addr.as_ref(), true).await
    }

    /// getpeername(2): a connection that was reset has no peer any more (ENOTCONN); after an orderly close by the
    /// peer the address is still reported
    pub fn peer_addr(&self) -> io::Result<SocketAddr> {
        if self.shared.lock().unwrap().pipes.iter().any(|p| p.reset) {
            return Err(io::Error::from_raw_os_error(107)); // ENOTCONN
        }
        Ok(SocketAddr::V4(self.peer))
    }
    pub fn local_addr(&self) -> io::Result<SocketAddr> {
        Ok(SocketAddr::V4(self.local))
    }
    pub fn set_nodelay(&self, _v: bool) -> io::Result<()> {
        Ok(())
    }

    /// The agent converts accepted streams to `std::net::TcpStream` and back (to set a read timeout and
    /// to clone). The std object is one end of a socketpair; the simulated stream is parked in a side
    /// table under that fd until `from_std` claims it.
    pub fn into_std(self) -> io::Result<std::net::TcpStream> {
        let mut fds = [0i32; 2];
        if unsafe { libc::socketpair(libc::AF_UNIX, libc::SOCK_STREAM, 0, fds.as_mut_ptr()) } != 0 {
            return Err(io::Error::last_os_error());
        }
        with(|n| n.std_table.insert(fds[0], (self, fds[1])));
        Ok(unsafe { std::net::TcpStream::from_raw_fd(fds[0]) })
    }
    pub fn from_std(s: std::net::TcpStream) -> io::Result<TcpStream> {
        let fd = s.as_raw_fd();
        let (stream, peer) = with(|n| n.std_table.remove(&fd)).ok_or_else(|| io::Error::new(io::ErrorKind::Other, "not a simulated stream"))?;
        unsafe {
            libc::close(peer);
        }
        drop(s);
        Ok(stream)
    }

    fn in_pipe(&self) -> usize {
        1 - self.side
    }
    fn out_pipe(&self) -> usize {
        self.side
    }

    /// abortive close: both directions reset
    pub fn reset(&self) {
        let mut g = self.shared.lock().unwrap();
        reset_conn(&mut g);
    }
}

fn reset_conn(g: &mut ConnShared) {
    for p in g.pipes.iter_mut() {
        p.reset = true;
        if let Some(w) = p.read_waker.take() {
            w.wake();
        }
    }
}

/// A simulated process connects. `agent` marks connections opened by the agent itself.
pub async fn connect_as(task: TaskIds, protocol: u32, addr: &str, agent: bool) -> io::Result<TcpStream> {
    let want = parse_v4(addr)?;
    // connection establishment takes a seeded number of grid ticks
    let lat = if crate::active() { crate::with(|w| { let m = w.knob("net.connect_lat_max_ms", 2).max(0) as u64; w.rng("net").below(m + 1) }) } else { 0 };
    if lat > 0 {
        tokio::time::sleep(Duration::from_millis(lat)).await;
    }
    let pick = if crate::active() { crate::below("kern", 1 << 30) } else { 0 };
    let res = kernel::connect(task, protocol, kernel::AF_INET, *want.ip(), want.port(), pick)
        .ok_or_else(|| {
            if crate::active() {
                crate::with(|w| {
                    w.count("probe.connect_failed_between_hooks");
                    w.log("net", format!("connect pid={} -> {} failed: no free source port", task.tgid, want));
                });
            }
            io::Error::new(io::ErrorKind::AddrNotAvailable, "no free source port")
        })?;
    let actual = SocketAddrV4::new(res.dst_ip, res.dst_port);
    let actual_s = actual.to_string();
    let src = SocketAddrV4::new(if res.dst_ip.is_loopback() { Ipv4Addr::LOCALHOST } else { Ipv4Addr::new(10, 0, 0, 4) }, res.src_port);

    // armed faults matching this connection
    let mut my_faults: Vec<FaultKind> = Vec::new();
    with(|n| {
        let mut i = 0;
        while i < n.armed.len() {
            let a = &n.armed[i];
            let m = a.dst.as_ref().map(|d| *d == actual_s).unwrap_or(true) && a.agent_initiated.map(|x| x == agent).unwrap_or(true);
            if m {
                // one armed fault is spent on one connection
                my_faults.push(n.armed.remove(i).kind);
                break;
            } else {
                i += 1;
            }
        }
    });
    let refused = my_faults.iter().any(|f| matches!(f, FaultKind::Refuse));
    let r = with(|n| {
        if refused || !n.listeners.contains_key(&actual_s) {
            n.next_conn += 1;
            let id = n.next_conn;
            n.conns.push(ConnInfo { id, initiator: task, src, requested_dst: want, actual_dst: actual, redirected: res.redirected, opened_ns: crate::time::now_ns(), bytes_out: 0, bytes_in: 0, accepted: false, refused: true, faults: my_faults.iter().map(|f| format!("{:?}", f)).collect() });
            return Err(io::Error::new(io::ErrorKind::ConnectionRefused, "Connection refused (os error 111)"));
        }
        n.next_conn += 1;
        let id = n.next_conn;
        let mut shared = ConnShared { id, pipes: [Pipe::default(), Pipe::default()] };
        for f in &my_faults {
            match f {
                FaultKind::ResetAfter { pipe, bytes } => shared.pipes[*pipe].reset_after = Some(*bytes),
                FaultKind::CloseAfter { pipe, bytes } => shared.pipes[*pipe].close_after = Some(*bytes),
                FaultKind::StallAt { pipe, bytes, ms } => shared.pipes[*pipe].stall_at = Some((*bytes, *ms)),
                FaultKind::Refuse => {}
            }
        }
        let shared = Arc::new(Mutex::new(shared));
        let a = TcpStream { shared: shared.clone(), side: 0, sleep: None, local: src, peer: actual, release_port: Some(res.src_port) };
        let b = TcpStream { shared, side: 1, sleep: None, local: actual, peer: src, release_port: None };
        n.conns.push(ConnInfo {
            id,
            initiator: task,
            src,
            requested_dst: want,
            actual_dst: actual,
            redirected: res.redirected,
            opened_ns: crate::time::now_ns(),
            bytes_out: 0,
            bytes_in: 0,
            accepted: false,
            refused: false,
            faults: my_faults.iter().map(|f| format!("{:?}", f)).collect(),
        });
        let l = n.listeners.get_mut(&actual_s).unwrap();
        l.queue.push_back((b, SocketAddr::V4(src)));
        if let Some(w) = l.waker.take() {
            w.wake();
        }
        Ok(a)
    });
    if crate::active() {
        match &r {
            Ok(s) => crate::with(|w| {
                if !my_faults.is_empty() {
                    w.count_n("fault.net_conn_fault_armed", my_faults.len() as u64);
                }
                w.log("net", format!("connect conn={} pid={} uid={} {} -> {} (asked {}) redirected={}", s.id(), task.tgid, task.uid, src, actual, want, res.redirected));
            }),
            Err(_) => {
                kernel::release_port(res.src_port);
                crate::with(|w| {
                    if refused {
                        w.count("fault.net_refused");
                    }
                    w.log("net", format!("connect pid={} {} -> {} refused", task.tgid, src, actual));
                })
            }
        }
    }
    r
}

impl AsyncRead for TcpStream {
    fn poll_read(mut self: Pin<&mut Self>, cx: &mut Context<'_>, buf: &mut ReadBuf<'_>) -> Poll<io::Result<()>> {
        let this = &mut *self;
        // spurious Pending: extra scheduler hop
        if crate::active() && crate::chance("net", crate::knob("net.pending_ppm", 0)) {
            crate::count("net.spurious_pending");
            cx.waker().wake_by_ref();
            return Poll::Pending;
        }
        let now = Instant::now();
        let pipe_idx = this.in_pipe();
        let mut g = this.shared.lock().unwrap();
        let id = g.id;
        let p = &mut g.pipes[pipe_idx];
        if p.reset {
            return Poll::Ready(Err(io::Error::new(io::ErrorKind::ConnectionReset, "Connection reset by peer (os error 104)")));
        }
        match p.segs.front_mut() {
            Some(seg) if seg.at <= now => {
                let avail = seg.data.len() - seg.off;
                let mut n = avail.min(buf.remaining());
                if n > 1 && crate::active() && crate::chance("net", crate::knob("net.short_read_ppm", 0)) {
                    n = 1 + crate::below("net", n as u64 - 1) as usize;
                    crate::count("net.short_reads");
                }
                buf.put_slice(&seg.data[seg.off..seg.off + n]);
                seg.off += n;
                if seg.off == seg.data.len() {
                    p.segs.pop_front();
                }
                p.read += n as u64;
                this.sleep = None;
                let _ = id;
                Poll::Ready(Ok(()))
            }
            Some(seg) => {
                let at = seg.at;
                p.read_waker = Some(cx.waker().clone());
                drop(g);
                let mut s = Box::pin(tokio::time::sleep_until(at));
                match s.as_mut().poll(cx) {
                    Poll::Ready(()) => {
                        cx.waker().wake_by_ref();
                        Poll::Pending
                    }
                    Poll::Pending => {
                        this.sleep = Some(s);
                        Poll::Pending
                    }
                }
            }
            None => {
                if p.writer_closed {
                    Poll::Ready(Ok(())) // EOF
                } else {
                    p.read_waker = Some(cx.waker().clone());
                    Poll::Pending
                }
            }
        }
    }
}

impl AsyncWrite for TcpStream {
    fn poll_write(self: Pin<&mut Self>, _cx: &mut Context<'_>, data: &[u8]) -> Poll<io::Result<usize>> {
        if data.is_empty() {
            return Poll::Ready(Ok(0));
        }
        let now = Instant::now();
        let pipe_idx = self.out_pipe();
        // decide everything seeded *before* taking the connection lock
        let (accept, cuts, lats): (usize, Vec<usize>, Vec<u64>) = if crate::active() {
            crate::with(|w| {
                let mut accept = data.len();
                if accept > 1 && (w.rng("net").below(1_000_000) as i64) < w.knob("net.short_write_ppm", 0) {
                    accept = 1 + w.rng("net").below(accept as u64 - 1) as usize;
                    w.count("net.short_writes");
                }
                let lat_max = w.knob("net.lat_max_ms", 2).max(0) as u64;
                let mut cuts = Vec::new();
                if accept > 1 && (w.rng("net").below(1_000_000) as i64) < w.knob("net.frag_ppm", 300_000) {
                    let pieces = 1 + w.rng("net").below(6.min(accept as u64 - 1));
                    for _ in 0..pieces {
                        cuts.push(1 + w.rng("net").below(accept as u64 - 1) as usize);
                    }
                    cuts.sort();
                    cuts.dedup();
                    w.count_n("net.fragments", cuts.len() as u64);
                }
                let mut lats = Vec::new();
                for _ in 0..=cuts.len() {
                    lats.push(w.rng("net").below(lat_max + 1));
                }
                (accept, cuts, lats)
            })
        } else {
            (data.len(), vec![], vec![0])
        };
        let mut g = self.shared.lock().unwrap();
        let id = g.id;
        {
            let p = &g.pipes[pipe_idx];
            if p.reset {
                return Poll::Ready(Err(io::Error::new(io::ErrorKind::ConnectionReset, "Connection reset by peer (os error 104)")));
            }
            if p.reader_gone {
                return Poll::Ready(Err(io::Error::new(io::ErrorKind::BrokenPipe, "Broken pipe (os error 32)")));
            }
            if p.writer_closed && p.close_after.is_none() {
                return Poll::Ready(Err(io::Error::new(io::ErrorKind::BrokenPipe, "write after shutdown")));
            }
        }
        let mut fired: Vec<&'static str> = Vec::new();
        let mut do_reset = false;
        {
            let p = &mut g.pipes[pipe_idx];
            let start_off = p.written;
            let mut bounds = vec![0usize];
            bounds.extend(cuts.iter().cloned());
            bounds.push(accept);
            for i in 0..bounds.len() - 1 {
                let (a, b) = (bounds[i], bounds[i + 1]);
                if a == b {
                    continue;
                }
                let mut piece = data[a..b].to_vec();
                let piece_start = start_off + a as u64;
                // half-close fault: bytes beyond the offset are discarded and EOF follows
                if let Some(ca) = p.close_after {
                    if piece_start + piece.len() as u64 > ca {
                        let keep = ca.saturating_sub(piece_start) as usize;
                        piece.truncate(keep);
                        if !p.writer_closed {
                            p.writer_closed = true;
                            fired.push("fault.net_close_after");
                        }
                    }
                }
                let mut lat = lats[i];
                if let Some((off, ms)) = p.stall_at {
                    if piece_start + piece.len() as u64 > off {
                        lat += ms;
                        p.stall_at = None;
                        fired.push("fault.net_stall");
                    }
                }
                let mut at = now + Duration::from_millis(lat);
                if let Some(l) = p.last_at {
                    if l > at {
                        at = l;
                    }
                }
                p.last_at = Some(at);
                if !piece.is_empty() {
                    p.segs.push_back(Seg { at, data: piece, off: 0 });
                }
            }
            p.written += accept as u64;
            if let Some(ra) = p.reset_after {
                if p.written >= ra {
                    do_reset = true;
                    p.reset_after = None;
                    fired.push("fault.net_reset");
                }
            }
            if let Some(w) = p.read_waker.take() {
                w.wake();
            }
        }
        if do_reset {
            reset_conn(&mut g);
        }
        drop(g);
        with(|n| {
            if let Some(c) = n.conns.iter_mut().find(|c| c.id == id) {
                if pipe_idx == 0 {
                    c.bytes_out += accept as u64;
                } else {
                    c.bytes_in += accept as u64;
                }
            }
        });
        if crate::active() {
            crate::with(|w| {
                for f in fired {
                    w.count(f);
                }
                w.log("net", format!("write conn={} dir={} len={}", id, pipe_idx, accept));
            });
        }
        Poll::Ready(Ok(accept))
    }
    fn poll_flush(self: Pin<&mut Self>, _cx: &mut Context<'_>) -> Poll<io::Result<()>> {
        Poll::Ready(Ok(()))
    }
    fn poll_shutdown(self: Pin<&mut Self>, _cx: &mut Context<'_>) -> Poll<io::Result<()>> {
        let pipe_idx = self.out_pipe();
        let mut g = self.shared.lock().unwrap();
        let p = &mut g.pipes[pipe_idx];
        p.writer_closed = true;
        if let Some(w) = p.read_waker.take() {
            w.wake();
        }
        Poll::Ready(Ok(()))
    }
}

impl Drop for TcpStream {
    fn drop(&mut self) {
        let (inp, outp) = (self.in_pipe(), self.out_pipe());
        let id;
        {
            let mut g = self.shared.lock().unwrap();
            id = g.id;
            {
                let p = &mut g.pipes[outp];
                p.writer_closed = true;
                if let Some(w) = p.read_waker.take() {
                    w.wake();
                }
            }
            g.pipes[inp].reader_gone = true;
        }
        if let Some(p) = self.release_port.take() {
            kernel::release_port(p);
        }
        if crate::active() {
            if let Some(()) = crate::try_with(|w| w.log("net", format!("close conn={} side={}", id, self.side))) {}
        }
    }
}
