//! Simulated kernel side of the redirector: BPF maps (hash / LRU hash semantics per the kernel
//! documentation), the two hook points around `connect()`, ephemeral source-port allocation.
//! The hook *programs* are supplied from outside (crate ebpf-native: the repository's C program
//! compiled natively); this module owns state and calling convention only.

use std::collections::{BTreeMap, BTreeSet};
use std::net::Ipv4Addr;
use std::sync::Mutex;

pub const MAP_SKIP: usize = 0;
pub const MAP_POLICY: usize = 1;
pub const MAP_AUDIT: usize = 2;
pub const MAP_LOCAL: usize = 3;
pub const MAP_NAMES: [&str; 4] = ["skip_process_map", "policy_map", "audit_map", "local_map"];

pub const IPPROTO_TCP: u32 = 6;
pub const IPPROTO_UDP: u32 = 17;
pub const AF_INET: u32 = 2;
pub const AF_INET6: u32 = 10;

#[derive(Clone, Debug, Default)]
pub struct MapDef {
    pub lru: bool,
    pub key_size: usize,
    pub value_size: usize,
    pub max_entries: usize,
}

#[derive(Default)]
pub struct Map {
    pub def: MapDef,
    entries: BTreeMap<Vec<u8>, (Vec<u8>, u64)>,
    tick: u64,
    pub evictions: u64,
}

impl Map {
    pub fn len(&self) -> usize {
        self.entries.len()
    }
    pub fn lookup(&mut self, key: &[u8]) -> Option<Vec<u8>> {
        self.tick += 1;
        let t = self.tick;
        match self.entries.get_mut(key) {
            Some((v, used)) => {
                *used = t;
                Some(v.clone())
            }
            None => None,
        }
    }
    pub fn peek(&self, key: &[u8]) -> Option<Vec<u8>> {
        self.entries.get(key).map(|(v, _)| v.clone())
    }
    /// returns 0 or a negative errno
    pub fn update(&mut self, key: &[u8], value: &[u8]) -> i32 {
        self.update_flags(key, value, 0)
    }
    /// the kernel's update flags: 0 = BPF_ANY, 1 = BPF_NOEXIST (fails with EEXIST when the key is present),
    /// 2 = BPF_EXIST (fails with ENOENT when it is absent); anything else is EINVAL
    pub fn update_flags(&mut self, key: &[u8], value: &[u8], flags: u64) -> i32 {
        if key.len() != self.def.key_size || value.len() != self.def.value_size || flags > 2 {
            return -22; // EINVAL
        }
        match (flags, self.entries.contains_key(key)) {
            (1, true) => return -17, // EEXIST
            (2, false) => return -2, // ENOENT
            _ => {}
        }
        self.tick += 1;
        let t = self.tick;
        if let Some(e) = self.entries.get_mut(key) {
            *e = (value.to_vec(), t);
            return 0;
        }
        if self.entries.len() >= self.def.max_entries {
            if self.def.lru {
                // evict the least recently used entry
                if let Some(k) = self.entries.iter().min_by_key(|(_, (_, u))| *u).map(|(k, _)| k.clone()) {
                    self.entries.remove(&k);
                    self.evictions += 1;
                }
            } else {
                return -7; // E2BIG
            }
        }
        self.entries.insert(key.to_vec(), (value.to_vec(), t));
        0
    }
    pub fn delete(&mut self, key: &[u8]) -> i32 {
        if self.entries.remove(key).is_some() {
            0
        } else {
            -2 // ENOENT
        }
    }
    pub fn clear(&mut self) {
        self.entries.clear();
    }
    pub fn keys(&self) -> Vec<Vec<u8>> {
        self.entries.keys().cloned().collect()
    }
}

#[derive(Clone, Copy, Debug, Default, PartialEq, Eq)]
pub struct TaskIds {
    pub tgid: u32,
    pub tid: u32,
    pub uid: u32,
    pub gid: u32,
}

#[repr(C)]
#[derive(Clone, Debug, Default)]
pub struct SockAddrCtx {
    pub user_family: u32,
    pub user_ip4: u32,  // network byte order
    pub user_port: u32, // network byte order in the low 16 bits
    pub family: u32,
    pub sock_type: u32,
    pub protocol: u32,
}

#[derive(Clone, Debug, Default)]
pub struct SockCommon {
    pub daddr: u32, // network byte order
    pub dport: u16, // network byte order
    pub num: u16,   // local port, host byte order
    pub family: u16,
}

pub type Connect4 = fn(&mut SockAddrCtx) -> i32;
pub type Kprobe = fn(&SockCommon) -> i32;

pub struct Kernel {
    pub maps: [Map; 4],
    pub hooks: Option<(Connect4, Kprobe)>,
    pub generation: u64,
    pub loaded: bool,
    pub cgroup_attached: bool,
    pub kprobe_attached: bool,
    pub port_lo: u16,
    pub port_n: u16,
    pub port_next: u16,
    pub agent_port_next: u16,
    pub ports_in_use: BTreeSet<u16>,
    pub current: TaskIds,
    pub connects: u64,
    pub redirects: u64,
}

static KERNEL: Mutex<Option<Kernel>> = Mutex::new(None);

pub fn reset() {
    let mut g = KERNEL.lock().unwrap_or_else(|e| e.into_inner());
    let (hooks, defs) = match g.take() {
        Some(k) => (k.hooks, Some([k.maps[0].def.clone(), k.maps[1].def.clone(), k.maps[2].def.clone(), k.maps[3].def.clone()])),
        None => (None, None),
    };
    let mut k = Kernel {
        maps: Default::default(),
        hooks,
        generation: 0,
        loaded: false,
        cgroup_attached: false,
        kprobe_attached: false,
        port_lo: 40000,
        port_n: 20000,
        port_next: 0,
        agent_port_next: 0,
        ports_in_use: BTreeSet::new(),
        current: TaskIds::default(),
        connects: 0,
        redirects: 0,
    };
    if let Some(d) = defs {
        for (i, def) in d.into_iter().enumerate() {
            k.maps[i].def = def;
        }
    }
    *g = Some(k);
}

pub fn with<R>(f: impl FnOnce(&mut Kernel) -> R) -> R {
    let mut g = KERNEL.lock().unwrap_or_else(|e| e.into_inner());
    if g.is_none() {
        drop(g);
        reset();
        g = KERNEL.lock().unwrap_or_else(|e| e.into_inner());
    }
    f(g.as_mut().unwrap())
}

pub fn install_programs(defs: [MapDef; 4], connect4: Connect4, kprobe: Kprobe) {
    with(|k| {
        for (i, d) in defs.into_iter().enumerate() {
            k.maps[i].def = d;
        }
        k.hooks = Some((connect4, kprobe));
    })
}

pub fn map_index(name: &str) -> Option<usize> {
    MAP_NAMES.iter().position(|n| *n == name)
}

/// user space loads a fresh object: maps start empty, nothing attached
pub fn load_object() -> u64 {
    with(|k| {
        for m in k.maps.iter_mut() {
            m.clear();
        }
        k.generation += 1;
        k.loaded = true;
        k.cgroup_attached = false;
        k.kprobe_attached = false;
        k.generation
    })
}
pub fn unload_object(generation: u64) {
    with(|k| {
        if k.generation == generation {
            k.loaded = false;
            k.cgroup_attached = false;
            k.kprobe_attached = false;
            for m in k.maps.iter_mut() {
                m.clear();
            }
        }
    })
}
pub fn set_attached(generation: u64, cgroup: Option<bool>, kprobe: Option<bool>) {
    with(|k| {
        if k.generation == generation {
            if let Some(c) = cgroup {
                k.cgroup_attached = c;
            }
            if let Some(p) = kprobe {
                k.kprobe_attached = p;
            }
        }
    })
}
pub fn current_task() -> TaskIds {
    with(|k| k.current)
}
pub fn set_port_range(lo: u16, n: u16) {
    with(|k| {
        k.port_lo = lo;
        k.port_n = n.max(1);
        k.port_next = 0;
    })
}
pub fn release_port(p: u16) {
    with(|k| {
        k.ports_in_use.remove(&p);
    })
}

pub fn ip_to_be32(ip: Ipv4Addr) -> u32 {
    u32::from_ne_bytes(ip.octets())
}
pub fn be32_to_ip(v: u32) -> Ipv4Addr {
    Ipv4Addr::from(v.to_ne_bytes())
}

#[derive(Clone, Debug)]
pub struct ConnectResult {
    pub dst_ip: Ipv4Addr,
    pub dst_port: u16,
    pub src_port: u16,
    pub redirected: bool,
}

/// allocate a source port; `pick` chooses among the free ones (seeded by the caller)
fn alloc_port(k: &mut Kernel, pick: u64, agent: bool) -> Option<u16> {
    if agent {
        // the agent's own outbound connections draw from a separate large range so that a deliberately
        // tiny client range (port-reuse scenarios) cannot starve them
        for _ in 0..10000 {
            let p = 50000 + (k.agent_port_next % 10000);
            k.agent_port_next = (k.agent_port_next + 1) % 10000;
            if !k.ports_in_use.contains(&p) {
                k.ports_in_use.insert(p);
                return Some(p);
            }
        }
        return None;
    }
    let n = k.port_n as u64;
    // small ranges: seeded pick among free ports (reuse is frequent); large ranges: rotate
    if n <= 64 {
        let free: Vec<u16> = (0..k.port_n).map(|i| k.port_lo + i).filter(|p| !k.ports_in_use.contains(p)).collect();
        if free.is_empty() {
            return None;
        }
        let p = free[(pick % free.len() as u64) as usize];
        k.ports_in_use.insert(p);
        Some(p)
    } else {
        for _ in 0..n {
            let p = k.port_lo + k.port_next;
            k.port_next = (k.port_next + 1) % k.port_n;
            if !k.ports_in_use.contains(&p) {
                k.ports_in_use.insert(p);
                return Some(p);
            }
        }
        None
    }
}

/// A simulated `connect()` system call by `task`. Runs the cgroup hook, allocates the source port,
/// runs the kprobe. Hooks are run back to back (engine A: one connecting thread at a time).
pub fn connect(task: TaskIds, protocol: u32, family: u32, dst_ip: Ipv4Addr, dst_port: u16, pick: u64) -> Option<ConnectResult> {
    // phase 1: cgroup/connect4
    let (hooks, cg, kp) = with(|k| {
        k.current = task;
        k.connects += 1;
        (k.hooks, k.cgroup_attached, k.kprobe_attached)
    });
    let mut ctx = SockAddrCtx {
        user_family: family,
        user_ip4: ip_to_be32(dst_ip),
        user_port: dst_port.to_be() as u32,
        family,
        sock_type: if protocol == IPPROTO_TCP { 1 } else { 2 },
        protocol,
    };
    if let (Some((c4, _)), true) = (hooks, cg) {
        if family == AF_INET {
            c4(&mut ctx);
        }
    }
    let new_ip = be32_to_ip(ctx.user_ip4);
    let new_port = u16::from_be(ctx.user_port as u16);
    let redirected = new_ip != dst_ip || new_port != dst_port;
    let src_port = with(|k| {
        if redirected {
            k.redirects += 1;
        }
        alloc_port(k, pick, task.tgid == crate::procs::AGENT_PID)
    })?;
    // phase 2: kprobe/tcp_v4_connect (TCP over IPv4 only)
    if let (Some((_, kprobe)), true) = (hooks, kp) {
        if protocol == IPPROTO_TCP && family == AF_INET {
            with(|k| k.current = task);
            let sk = SockCommon { daddr: ctx.user_ip4, dport: ctx.user_port as u16, num: src_port, family: AF_INET as u16 };
            kprobe(&sk);
        }
    }
    Some(ConnectResult { dst_ip: new_ip, dst_port: new_port, src_port, redirected })
}

// --- map access used by helpers (kernel side) and by aya-sim (user side) ---
pub fn map_lookup(idx: usize, key: &[u8]) -> Option<Vec<u8>> {
    with(|k| k.maps[idx].lookup(key))
}
pub fn map_peek(idx: usize, key: &[u8]) -> Option<Vec<u8>> {
    with(|k| k.maps[idx].peek(key))
}
pub fn map_update(idx: usize, key: &[u8], value: &[u8]) -> i32 {
    with(|k| k.maps[idx].update(key, value))
}
pub fn map_update_flags(idx: usize, key: &[u8], value: &[u8], flags: u64) -> i32 {
    with(|k| k.maps[idx].update_flags(key, value, flags))
}
pub fn map_delete(idx: usize, key: &[u8]) -> i32 {
    with(|k| k.maps[idx].delete(key))
}
pub fn map_len(idx: usize) -> usize {
    with(|k| k.maps[idx].len())
}
pub fn map_keys(idx: usize) -> Vec<Vec<u8>> {
    with(|k| k.maps[idx].keys())
}
pub fn map_def(idx: usize) -> MapDef {
    with(|k| k.maps[idx].def.clone())
}
