//! Simulated process table and user database: what `/proc`, passwd and group lookups answer.

use std::collections::BTreeMap;
use std::ffi::OsString;
use std::sync::Mutex;

#[derive(Clone, Debug)]
pub struct Proc {
    pub pid: u32,
    pub tid: u32,
    pub uid: u32,
    pub gid: u32,
    /// None = executable path unknown to the process table
    pub exe: Option<OsString>,
    pub cmd: Vec<String>,
}

#[derive(Clone, Debug)]
pub struct UserRec {
    pub uid: u32,
    pub name: OsString,
    pub primary_gid: u32,
    pub groups: Vec<(u32, OsString)>,
}

#[derive(Default)]
pub struct Table {
    pub procs: BTreeMap<u32, Proc>,
    pub users: BTreeMap<u32, UserRec>,
    pub agent_pid: u32,
    pub total_memory: u64,
    pub cpus: usize,
}

static TABLE: Mutex<Option<Table>> = Mutex::new(None);

pub const AGENT_PID: u32 = 4242;

pub fn reset() {
    let mut t = Table { agent_pid: AGENT_PID, total_memory: 8 * 1024 * 1024 * 1024, cpus: 4, ..Default::default() };
    t.users.insert(
        0,
        UserRec { uid: 0, name: "root".into(), primary_gid: 0, groups: vec![(0, "root".into())] },
    );
    *TABLE.lock().unwrap_or_else(|e| e.into_inner()) = Some(t);
}
pub fn with<R>(f: impl FnOnce(&mut Table) -> R) -> R {
    let mut g = TABLE.lock().unwrap_or_else(|e| e.into_inner());
    if g.is_none() {
        drop(g);
        reset();
        g = TABLE.lock().unwrap_or_else(|e| e.into_inner());
    }
    f(g.as_mut().unwrap())
}
pub fn add_proc(p: Proc) {
    with(|t| {
        t.procs.insert(p.pid, p);
    })
}
pub fn remove_proc(pid: u32) {
    with(|t| {
        t.procs.remove(&pid);
    })
}
pub fn add_user(u: UserRec) {
    with(|t| {
        t.users.insert(u.uid, u);
    })
}
pub fn get_proc(pid: u32) -> Option<Proc> {
    with(|t| t.procs.get(&pid).cloned())
}
pub fn get_user(uid: u32) -> Option<UserRec> {
    with(|t| t.users.get(&uid).cloned())
}
pub fn agent_pid() -> u32 {
    with(|t| t.agent_pid)
}
