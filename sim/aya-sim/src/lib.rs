//! Stand-in for the subset of the `aya` 0.13 API the agent uses. Maps live in the simulated kernel
//! (`vrt::kernel`); the kernel side of the maps is driven by the repository's C program (ebpf-native).
//! Cooperative fault points (armed per run): aya.load_file, aya.prog_load.<name>, aya.attach.<name>,
//! aya.map_insert.<map>, aya.map_remove.<map>.
use std::fmt;
use std::marker::PhantomData;
use std::path::Path;
use vrt::kernel;

#[derive(Debug)]
pub struct SimError(pub String);
impl fmt::Display for SimError {
    fn fmt(&self, f: &mut fmt::Formatter<'_>) -> fmt::Result {
        write!(f, "{}", self.0)
    }
}
impl std::error::Error for SimError {}

pub type EbpfError = SimError;

/// Marker for plain-old-data keys/values
pub unsafe trait Pod: Copy + 'static {}
unsafe impl<const N: usize> Pod for [u32; N] {}
unsafe impl Pod for u32 {}
unsafe impl Pod for u64 {}

fn bytes_of<T: Pod>(t: &T) -> &[u8] {
    unsafe { std::slice::from_raw_parts(t as *const T as *const u8, std::mem::size_of::<T>()) }
}
fn from_bytes<T: Pod>(b: &[u8]) -> Option<T> {
    if b.len() != std::mem::size_of::<T>() {
        return None;
    }
    let mut t = std::mem::MaybeUninit::<T>::uninit();
    unsafe {
        std::ptr::copy_nonoverlapping(b.as_ptr(), t.as_mut_ptr() as *mut u8, b.len());
        Some(t.assume_init())
    }
}

pub struct Btf;
impl Btf {
    pub fn from_sys_fs() -> Result<Btf, SimError> {
        Ok(Btf)
    }
}

pub struct EbpfLoader<'a> {
    _p: PhantomData<&'a ()>,
}
impl<'a> EbpfLoader<'a> {
    pub fn new() -> Self {
        EbpfLoader { _p: PhantomData }
    }
    pub fn btf(&mut self, _btf: Option<&'a Btf>) -> &mut Self {
        self
    }
    pub fn load_file<P: AsRef<Path>>(&mut self, path: P) -> Result<Ebpf, SimError> {
        if vrt::active() && vrt::buggify("aya.load_file") {
            vrt::log("kern", "load_file -> error (injected)".to_string());
            return Err(SimError("error parsing ELF data (injected)".into()));
        }
        if !path.as_ref().is_file() {
            return Err(SimError(format!("error reading {}", path.as_ref().display())));
        }
        let generation = kernel::load_object();
        if vrt::active() {
            vrt::log("kern", format!("load_file ok generation={}", generation));
        }
        Ok(Ebpf {
            generation,
            maps: [
                maps::Map(maps::MapData { idx: 0, generation }),
                maps::Map(maps::MapData { idx: 1, generation }),
                maps::Map(maps::MapData { idx: 2, generation }),
                maps::Map(maps::MapData { idx: 3, generation }),
            ],
            progs: [
                programs::Program::CgroupSockAddr(programs::CgroupSockAddr { generation, loaded: false }),
                programs::Program::KProbe(programs::KProbe { generation, loaded: false }),
            ],
        })
    }
}
impl<'a> Default for EbpfLoader<'a> {
    fn default() -> Self {
        Self::new()
    }
}

pub struct Ebpf {
    generation: u64,
    maps: [maps::Map; 4],
    progs: [programs::Program; 2],
}
impl Ebpf {
    pub fn map(&self, name: &str) -> Option<&maps::Map> {
        kernel::map_index(name).map(|i| &self.maps[i])
    }
    pub fn map_mut(&mut self, name: &str) -> Option<&mut maps::Map> {
        kernel::map_index(name).map(move |i| &mut self.maps[i])
    }
    pub fn program_mut(&mut self, name: &str) -> Option<&mut programs::Program> {
        match name {
            "connect4" => Some(&mut self.progs[0]),
            "tcp_v4_connect" => Some(&mut self.progs[1]),
            _ => None,
        }
    }
}
impl Drop for Ebpf {
    fn drop(&mut self) {
        kernel::unload_object(self.generation);
        if vrt::active() {
            let g = self.generation;
            let _ = vrt::try_with(|w| w.log("kern", format!("object dropped generation={}", g)));
        }
    }
}

pub mod maps {
    use super::*;
    pub struct MapData {
        pub(crate) idx: usize,
        #[allow(dead_code)]
        pub(crate) generation: u64,
    }
    pub struct Map(pub(crate) MapData);

    #[derive(Debug)]
    pub enum MapError {
        KeyNotFound,
        InvalidKeySize { size: usize, expected: usize },
        InvalidValueSize { size: usize, expected: usize },
        SyscallError(String),
    }
    impl fmt::Display for MapError {
        fn fmt(&self, f: &mut fmt::Formatter<'_>) -> fmt::Result {
            match self {
                MapError::KeyNotFound => write!(f, "key not found"),
                MapError::InvalidKeySize { size, expected } => write!(f, "invalid key size {}, expected {}", size, expected),
                MapError::InvalidValueSize { size, expected } => write!(f, "invalid value size {}, expected {}", size, expected),
                MapError::SyscallError(s) => write!(f, "{}", s),
            }
        }
    }
    impl std::error::Error for MapError {}

    pub struct HashMap<T, K, V> {
        inner: T,
        _k: PhantomData<K>,
        _v: PhantomData<V>,
    }

    fn check<K, V>(idx: usize) -> Result<(), MapError> {
        let def = kernel::map_def(idx);
        if def.key_size != std::mem::size_of::<K>() {
            return Err(MapError::InvalidKeySize { size: std::mem::size_of::<K>(), expected: def.key_size });
        }
        if def.value_size != std::mem::size_of::<V>() {
            return Err(MapError::InvalidValueSize { size: std::mem::size_of::<V>(), expected: def.value_size });
        }
        Ok(())
    }

    impl<'a, K: Pod, V: Pod> TryFrom<&'a Map> for HashMap<&'a MapData, K, V> {
        type Error = MapError;
        fn try_from(m: &'a Map) -> Result<Self, MapError> {
            check::<K, V>(m.0.idx)?;
            Ok(HashMap { inner: &m.0, _k: PhantomData, _v: PhantomData })
        }
    }
    impl<'a, K: Pod, V: Pod> TryFrom<&'a mut Map> for HashMap<&'a mut MapData, K, V> {
        type Error = MapError;
        fn try_from(m: &'a mut Map) -> Result<Self, MapError> {
            check::<K, V>(m.0.idx)?;
            Ok(HashMap { inner: &mut m.0, _k: PhantomData, _v: PhantomData })
        }
    }

    impl<T: std::borrow::Borrow<MapData>, K: Pod, V: Pod> HashMap<T, K, V> {
        pub fn get(&self, key: &K, _flags: u64) -> Result<V, MapError> {
            let idx = self.inner.borrow().idx;
            let found = kernel::map_lookup(idx, bytes_of(key));
            if vrt::active() {
                vrt::log("kern", format!("user lookup {} key={:02x?} task={} -> {}", kernel::MAP_NAMES[idx], bytes_of(key), vrt::sched::current_task(), if found.is_some() { "found" } else { "none" }));
            }
            match found {
                Some(v) => from_bytes::<V>(&v).ok_or(MapError::KeyNotFound),
                None => Err(MapError::KeyNotFound),
            }
        }
    }
    impl<T: std::borrow::BorrowMut<MapData>, K: Pod, V: Pod> HashMap<T, K, V> {
        pub fn insert(&mut self, key: impl std::borrow::Borrow<K>, value: impl std::borrow::Borrow<V>, flags: u64) -> Result<(), MapError> {
            let idx = self.inner.borrow().idx;
            let name = kernel::MAP_NAMES[idx];
            if vrt::active() && vrt::buggify(&format!("aya.map_insert.{}", name)) {
                vrt::log("kern", format!("user insert {} -> error (injected)", name));
                return Err(MapError::SyscallError("bpf_map_update_elem failed (injected)".into()));
            }
            let r = kernel::map_update_flags(idx, bytes_of(key.borrow()), bytes_of(value.borrow()), flags);
            if vrt::active() {
                vrt::log("kern", format!("user insert {} key={:02x?} value={:02x?} -> {}", name, bytes_of(key.borrow()), bytes_of(value.borrow()), r));
            }
            if r == 0 {
                Ok(())
            } else {
                Err(MapError::SyscallError(format!("bpf_map_update_elem failed: errno {}", -r)))
            }
        }
        pub fn remove(&mut self, key: &K) -> Result<(), MapError> {
            let idx = self.inner.borrow().idx;
            let name = kernel::MAP_NAMES[idx];
            if vrt::active() && vrt::buggify(&format!("aya.map_remove.{}", name)) {
                vrt::log("kern", format!("user remove {} -> error (injected)", name));
                return Err(MapError::SyscallError("bpf_map_delete_elem failed (injected)".into()));
            }
            let r = kernel::map_delete(idx, bytes_of(key));
            if vrt::active() {
                vrt::log("kern", format!("user remove {} key={:02x?} task={} -> {}", name, bytes_of(key), vrt::sched::current_task(), r));
            }
            if r == 0 {
                Ok(())
            } else {
                Err(MapError::KeyNotFound)
            }
        }
    }
}

pub mod programs {
    use super::*;
    #[derive(Debug)]
    pub enum ProgramError {
        UnexpectedProgramType,
        LoadError(String),
        AttachError(String),
        NotLoaded,
    }
    impl fmt::Display for ProgramError {
        fn fmt(&self, f: &mut fmt::Formatter<'_>) -> fmt::Result {
            match self {
                ProgramError::UnexpectedProgramType => write!(f, "unexpected program type"),
                ProgramError::LoadError(s) => write!(f, "the BPF_PROG_LOAD syscall failed: {}", s),
                ProgramError::AttachError(s) => write!(f, "attach failed: {}", s),
                ProgramError::NotLoaded => write!(f, "the program is not loaded"),
            }
        }
    }
    impl std::error::Error for ProgramError {}

    #[derive(Debug, Clone, Copy, PartialEq, Eq)]
    pub struct LinkId(pub u64);

    #[derive(Clone, Copy, Debug, Default)]
    pub enum CgroupAttachMode {
        #[default]
        Single,
        AllowOverride,
        AllowMultiple,
    }

    pub struct CgroupSockAddr {
        pub(crate) generation: u64,
        pub(crate) loaded: bool,
    }
    pub struct KProbe {
        pub(crate) generation: u64,
        pub(crate) loaded: bool,
    }
    pub enum Program {
        CgroupSockAddr(CgroupSockAddr),
        KProbe(KProbe),
    }
    impl<'a> TryFrom<&'a mut Program> for &'a mut CgroupSockAddr {
        type Error = ProgramError;
        fn try_from(p: &'a mut Program) -> Result<Self, ProgramError> {
            match p {
                Program::CgroupSockAddr(c) => Ok(c),
                _ => Err(ProgramError::UnexpectedProgramType),
            }
        }
    }
    impl<'a> TryFrom<&'a mut Program> for &'a mut KProbe {
        type Error = ProgramError;
        fn try_from(p: &'a mut Program) -> Result<Self, ProgramError> {
            match p {
                Program::KProbe(c) => Ok(c),
                _ => Err(ProgramError::UnexpectedProgramType),
            }
        }
    }
    impl CgroupSockAddr {
        pub fn load(&mut self) -> Result<(), ProgramError> {
            if vrt::active() && vrt::buggify("aya.prog_load.connect4") {
                vrt::log("kern", "load connect4 -> error (injected)".into());
                return Err(ProgramError::LoadError("Permission denied (injected)".into()));
            }
            self.loaded = true;
            Ok(())
        }
        pub fn attach<T>(&mut self, _cgroup: T, _mode: CgroupAttachMode) -> Result<LinkId, ProgramError> {
            if !self.loaded {
                return Err(ProgramError::NotLoaded);
            }
            if vrt::active() && vrt::buggify("aya.attach.connect4") {
                vrt::log("kern", "attach connect4 -> error (injected)".into());
                return Err(ProgramError::AttachError("bpf_prog_attach failed (injected)".into()));
            }
            kernel::set_attached(self.generation, Some(true), None);
            if vrt::active() {
                vrt::log("kern", format!("attach connect4 ok generation={}", self.generation));
            }
            Ok(LinkId(1))
        }
    }
    impl KProbe {
        pub fn load(&mut self) -> Result<(), ProgramError> {
            if vrt::active() && vrt::buggify("aya.prog_load.tcp_v4_connect") {
                vrt::log("kern", "load kprobe -> error (injected)".into());
                return Err(ProgramError::LoadError("Permission denied (injected)".into()));
            }
            self.loaded = true;
            Ok(())
        }
        pub fn attach<T: AsRef<std::ffi::OsStr>>(&mut self, _fn_name: T, _offset: u64) -> Result<LinkId, ProgramError> {
            if !self.loaded {
                return Err(ProgramError::NotLoaded);
            }
            if vrt::active() && vrt::buggify("aya.attach.tcp_v4_connect") {
                vrt::log("kern", "attach kprobe -> error (injected)".into());
                return Err(ProgramError::AttachError("perf_event_open failed (injected)".into()));
            }
            kernel::set_attached(self.generation, None, Some(true));
            if vrt::active() {
                vrt::log("kern", format!("attach kprobe ok generation={}", self.generation));
            }
            Ok(LinkId(2))
        }
    }
}
