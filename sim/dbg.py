import json,sys,subprocess,os
scen,seed,tok=sys.argv[1],sys.argv[2],sys.argv[3]
env=dict(os.environ,VERIF_SCENARIO=scen,VERIF_SEED=seed,VERIF_DEBUG_TOK=tok)
out=subprocess.run(['/verif/.build/target/release/simctl','nsrun','/verif/.build/target/release/agent-sim'],env=env,capture_output=True).stdout
d=json.loads(out)
for st in d['plan']['steps']:
    if st['t']=='clients':
        for c in st['conns']:
            for r in c['reqs']:
                if r['tok']==tok: print('CLIENT', c['dst'], 'pipeline' ,c.get('pipeline'), json.dumps(r)[:1500])
for x in d.get('debug',[]): print(x)
for v in d['violations']:
    if tok+' ' in v['detail'] or v['detail'].endswith(tok): print('VIOL',v)
