#!/bin/bash
# usage: runseeds.sh <scenario> <from> <to>   (debug helper)
for s in $(seq $2 $3); do VERIF_SCENARIO=$1 VERIF_SEED=$s /verif/.build/target/release/simctl nsrun /verif/.build/target/release/agent-sim | python3 -c "
import json,sys
d=json.load(sys.stdin)
print(d['seed'],d['verdict'],d['digest'],d['sim_ms'],d['wall_ms'],d['progress'],d['stats'],d['notes'][:3])
for v in d['violations'][:8]: print('   ',v['property'],v['class'],'|',v['detail'][:260])
"; done
