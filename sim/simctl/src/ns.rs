//! Private mount namespace for a worker: the shipped paths (/etc/azure, /var/lib/azure-proxy-agent,
//! /var/log/azure-proxy-agent, /dev/console) resolve to worker-private tmpfs-backed storage, so the
//! agent runs with its packaged configuration and concurrent workers cannot see each other.

use std::ffi::CString;
use std::io;

fn cstr(s: &str) -> CString {
    CString::new(s).unwrap()
}
fn mount(src: &str, tgt: &str, fstype: &str, flags: libc::c_ulong, data: &str) -> io::Result<()> {
    let (s, t, f, d) = (cstr(src), cstr(tgt), cstr(fstype), cstr(data));
    let r = unsafe {
        libc::mount(
            if src.is_empty() { std::ptr::null() } else { s.as_ptr() },
            t.as_ptr(),
            if fstype.is_empty() { std::ptr::null() } else { f.as_ptr() },
            flags,
            if data.is_empty() { std::ptr::null() } else { d.as_ptr() as *const libc::c_void },
        )
    };
    if r != 0 {
        let e = io::Error::last_os_error();
        return Err(io::Error::new(e.kind(), format!("mount {} on {} ({}): {}", src, tgt, fstype, e)));
    }
    Ok(())
}

pub const NSROOT: &str = "/verif/.build/nsroot";

/// Enter a new mount namespace and build the private view. Idempotent per process.
pub fn enter() -> io::Result<()> {
    std::fs::create_dir_all(NSROOT)?;
    if unsafe { libc::unshare(libc::CLONE_NEWNS) } != 0 {
        return Err(io::Error::new(io::ErrorKind::Other, format!("unshare(CLONE_NEWNS): {}", io::Error::last_os_error())));
    }
    mount("", "/", "", libc::MS_REC | libc::MS_PRIVATE, "")?;
    mount("tmpfs", NSROOT, "tmpfs", 0, "size=2g,mode=0755")?;
    for (name, lower) in [("etc", "/etc"), ("varlog", "/var/log"), ("varlib", "/var/lib"), ("usrsbin", "/usr/sbin"), ("usrlib", "/usr/lib")] {
        let up = format!("{}/{}.up", NSROOT, name);
        let wk = format!("{}/{}.wk", NSROOT, name);
        std::fs::create_dir_all(&up)?;
        std::fs::create_dir_all(&wk)?;
        mount("overlay", lower, "overlay", 0, &format!("lowerdir={},upperdir={},workdir={}", lower, up, wk))?;
    }
    let console = format!("{}/console", NSROOT);
    std::fs::write(&console, b"")?;
    mount(&console, "/dev/console", "", libc::MS_BIND, "")?;
    std::fs::create_dir_all("/etc/azure")?;
    Ok(())
}

fn rm_contents(dir: &str) {
    if let Ok(rd) = std::fs::read_dir(dir) {
        for e in rd.flatten() {
            let p = e.path();
            if p.is_dir() {
                let _ = std::fs::remove_dir_all(&p);
            } else {
                let _ = std::fs::remove_file(&p);
            }
        }
    }
}

/// wipe everything a run may have left behind
pub fn wipe() {
    let _ = std::fs::remove_dir_all("/var/lib/azure-proxy-agent");
    let _ = std::fs::remove_dir_all("/usr/lib/azure-proxy-agent");
    let _ = std::fs::remove_file("/usr/sbin/azure-proxy-agent");
    let _ = std::fs::remove_file("/usr/lib/systemd/system/azure-proxy-agent.service");
    let _ = std::fs::remove_dir_all("/var/log/azure-proxy-agent");
    rm_contents("/etc/azure");
    let _ = std::fs::OpenOptions::new().write(true).truncate(true).open("/dev/console");
    let _ = std::fs::remove_dir_all(format!("{}/scratch", NSROOT));
    let _ = std::fs::create_dir_all(format!("{}/scratch", NSROOT));
}

pub const SHIPPED_CONFIG_PATH: &str = "/repo/proxy_agent/config/GuestProxyAgent.linux.json";

/// install the packaged configuration (optionally with overrides) at its shipped location
pub fn install_config(overrides: &serde_json::Value) -> io::Result<()> {
    let txt = std::fs::read_to_string(SHIPPED_CONFIG_PATH)?;
    let mut v: serde_json::Value = serde_json::from_str(&txt).map_err(|e| io::Error::new(io::ErrorKind::Other, e.to_string()))?;
    if let (Some(o), Some(dst)) = (overrides.as_object(), v.as_object_mut()) {
        for (k, val) in o {
            dst.insert(k.clone(), val.clone());
        }
    }
    std::fs::create_dir_all("/etc/azure")?;
    std::fs::write("/etc/azure/proxy-agent.json", serde_json::to_vec_pretty(&v).unwrap())
}
