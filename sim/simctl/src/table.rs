//! Which scenario families decide which property, and how many runs each tier explores.
use serde_json::{json, Value};

pub const AGENT_SIM: &str = "/verif/.build/target/release/agent-sim";
pub const EBPF_SIM: &str = "/verif/.build/target/release/ebpf-sim";
pub const SETUP_SIM: &str = "/verif/.build/target/release/setup-sim";

pub struct Scen {
    pub name: String,
    pub bin: &'static str,
    pub weight: u64,
}
pub struct Spec {
    pub scenarios: Vec<Scen>,
    pub quick_runs: u64,
    pub thorough_runs: u64,
    pub level: &'static str,
    pub rule: String,
    pub exhaustive: bool,
}

fn s(name: &str, weight: u64) -> Scen {
    Scen { name: name.to_string(), bin: bin_for(name), weight }
}

pub fn bin_for(scenario: &str) -> &'static str {
    if scenario.starts_with("ebpf") {
        EBPF_SIM
    } else if scenario.starts_with("setup") {
        SETUP_SIM
    } else {
        AGENT_SIM
    }
}

pub fn scenario_for<'a>(spec: &'a Spec, i: u64) -> &'a Scen {
    let total: u64 = spec.scenarios.iter().map(|s| s.weight).sum();
    let mut x = i % total.max(1);
    for sc in spec.scenarios.iter() {
        if x < sc.weight {
            return sc;
        }
        x -= sc.weight;
    }
    &spec.scenarios[0]
}

const RULE_A: &str = "one evaluation = one simulated run of the whole agent (fresh process) under a plan generated from mix(VERIF_SEED, i): workload, host script, fault sites, network and scheduling profile are all drawn from the seed; a run is non-trivial when at least one client request completed, one request was relayed or one status poll was answered; distinct = distinct (scenario, schedule digest) pairs among the non-trivial runs, the schedule digest being a hash of the sequence of task polls and seam events of that run";

pub fn spec(prop: &str) -> Spec {
    let (scen, q, t): (Vec<Scen>, u64, u64) = match prop {
        "C01" => (vec![s("proxy:C01", 1)], 1500, 300000),
        "C02" => (vec![s("proxy:C02", 1)], 1200, 200000),
        "C03" => (vec![s("proxy:C03", 1)], 1200, 300000),
        "C04" => (vec![s("proxy:C04", 1)], 1200, 300000),
        "C05" => (vec![s("proxy:C05", 1)], 1200, 300000),
        "C06" => (vec![s("ebpf:C06", 1)], 400, 20000),
        "C07" => (vec![s("proxy:C07", 1)], 1500, 300000),
        "C08" => (vec![s("crash:C08", 1)], 48, 4000),
        "C09" => (vec![s("keeper:C09", 1)], 1000, 100000),
        "C10" => (vec![s("keeper:C10", 1)], 1500, 200000),
        "C11" => (vec![s("proxy:C11", 1)], 1000, 100000),
        "C12" => (vec![s("keeper:C12", 1)], 800, 100000),
        "C13" => (vec![s("hostile:C13", 1)], 800, 150000),
        "C14" => (vec![s("proxy:C14", 1)], 1200, 300000),
        "C15" => (vec![s("proxy:C15", 1)], 800, 120000),
        "C16" => (vec![s("provision:C16", 1)], 1200, 300000),
        "C17" => (vec![s("setup:C17", 1)], 160, 40000),
        "C18" => (vec![s("telemetry:C18", 1)], 400, 10000),
        "C19" => (vec![s("disk:C19", 1)], 600, 60000),
        _ => (vec![], 0, 0),
    };
    if prop == "C06" {
        return Spec {
            scenarios: scen,
            quick_runs: q,
            thorough_runs: t,
            level: "exploration",
            rule: "one child run = one workload generated from mix(VERIF_SEED, i) (1-8 processes x 1-4 threads with independently drawn uid/gid/tgid/tid, 1-12 connects each to protected endpoints, near misses, UDP, IPv6, the listener itself and arbitrary others, plus concurrent user-space policy / skip-map edits through the agent's real BpfObject) executed under 100 (quick) or 400 (thorough) schedules of a seeded shuttle scheduler (random or PCT), with a scheduling point before every BPF helper call; one evaluation = one schedule; every completed connect is compared with a reference of the documented behaviour and every record is read back through the agent's real decoders. distinct_nontrivial = number of child runs (workloads) whose schedule digest - a hash of the (thread, helper call) sequence over all their schedules - is distinct and in which at least one connect completed".to_string(),
            exhaustive: false,
        };
    }
    if prop == "C17" {
        return Spec {
            scenarios: scen,
            quick_runs: q,
            thorough_runs: t,
            level: "exploration",
            rule: "one evaluation = one seeded history of 1-8 setup commands (backup, install, restore with/without backup deletion, uninstall service|package, purge; the round trip backup -> install -> restore is over-represented) run with the real proxy_agent_setup binary built from /repo, from a seeded initial state (nothing installed / a version installed) x (backup absent / present) with random file contents, in a private mount namespace whose overlay upper directories show every change under /etc, /usr/sbin, /usr/lib, /var/lib, /var/log; after every command the four system files, the backup folder, the rest of the tool's folder and the overlay upper directories are compared with a file-tree reference model, and the stand-in systemctl's journal (arguments + hashes of the four files at each invocation) with the required stop-before / start-after ordering. A history is non-trivial when at least one command ran; distinct = distinct (history, initial state) digests".to_string(),
            exhaustive: false,
        };
    }
    if prop == "C08" {
        return Spec {
            scenarios: scen,
            quick_runs: q,
            thorough_runs: t,
            level: "fault_enumeration",
            rule: "phase 1: one seeded execution of a key-negotiation scenario (fresh latch / restart with key / rotation / unreadable local key, with host failures at protocol steps and disk errors while storing) in which a snapshot (key directory tree, host state) is taken at EVERY file-system call on the key directory and EVERY network segment on the key keeper's connections; phase 2: one evaluation = one restart of the real agent in a fresh process from one snapshot (disk := snapshot, host := snapshot, no faults), for every snapshot of the execution (snapshots with identical disk+host state are restarted once); distinct_nontrivial = number of distinct (disk tree, host state) crash states restarted from. The crash-point dimension is enumerated completely per execution; the executions themselves are sampled by seed".to_string(),
            exhaustive: false,
        };
    }
    Spec { scenarios: scen, quick_runs: q, thorough_runs: t, level: "exploration", rule: RULE_A.to_string(), exhaustive: false }
}

pub fn components(_prop: &str) -> Value {
    json!({
        "real": ["proxy_agent (all modules, compiled from the /repo working tree)", "proxy_agent_shared", "hyper 1.4 / hyper-util / http / tower / tower-http / serde / serde_json / serde-xml-rs / hmac-sha256 / hex / regex / clap / time (versions of /repo/Cargo.lock)", "tokio 1.43.1 runtime, timers, sync, macros (current-thread flavour, paused clock)", "linux-ebpf/ebpf_cgroup.c compiled natively (BPF helpers and map semantics are a model)", "tmpfs/overlay VFS under a tracing, fault-injecting libc seam"],
        "facade_or_stub": ["tokio::net (in-memory transport)", "tokio::spawn / task::spawn (perturbation adaptor)", "aya (map/program store over the simulated kernel)", "sysinfo, uzers (simulated process table and user database)"],
        "model": ["WireServer / HostGAPlugin / IMDS hosts (own HTTP codec, own SHA-256/HMAC, own canonicaliser)", "local client processes (raw HTTP/1.1 bytes)", "BPF helper functions and hash/LRU map semantics"],
    })
}

pub fn assumptions(_prop: &str) -> Value {
    json!([
        "interleavings are explored at await granularity on one thread (production uses the multi-thread runtime)",
        "the in-memory transport honours TCP's ordered, exactly-once-or-reset contract; no duplication is modelled",
        "the host model follows the protocol comments in this repository; the real WireServer is closed source",
        "tokio's current-thread scheduler, paused clock and RNG seeding are trusted",
        "a clean batch is evidence over the sampled seeds, not a proof"
    ])
}
