//! simctl: batch driver for the deterministic simulation checks.
//!   simctl check <PROP> [--tier quick|thorough] [--runs N] [--jobs J]
//!   simctl replay <file>
//!   simctl determinism <PROP> [--runs N]
//!   simctl nsrun <cmd..>            (debug: run a command inside a worker namespace)
//!   simctl worker ...               (internal)
//! Exit codes: 0 property held on everything explored (KNOWN-FINDING lines possible);
//!             1 violation (a line `VIOLATION property=<id> replay=<path>` is printed);
//!             2 harness error (never reported as a violation).

mod ns;
mod table;

use serde_json::{json, Value};
use std::collections::{BTreeMap, BTreeSet};
use std::io::{BufRead, BufReader, Write};
use std::process::{Command, Stdio};
use std::time::{Duration, Instant};

const AGENT_SIM: &str = "/verif/.build/target/release/agent-sim";
const DEFAULT_SEED: u64 = 20260926;

fn mix(seed: u64, i: u64) -> u64 {
    let mut x = seed ^ i.wrapping_mul(0xD6E8FEB86659FD93);
    x = x.wrapping_add(0x9E3779B97F4A7C15);
    let mut z = x;
    z = (z ^ (z >> 30)).wrapping_mul(0xBF58476D1CE4E5B9);
    z = (z ^ (z >> 27)).wrapping_mul(0x94D049BB133111EB);
    (z ^ (z >> 31)) >> 1 // keep it in i64 range for JSON consumers
}

fn arg_val(args: &[String], name: &str) -> Option<String> {
    args.iter().position(|a| a == name).and_then(|i| args.get(i + 1)).cloned()
}

fn harness_error(msg: &str) -> ! {
    println!("HARNESS-ERROR {}", msg);
    eprintln!("HARNESS-ERROR {}", msg);
    std::process::exit(2);
}

/// run one child inside the (already entered) namespace
fn run_child(bin: &str, scenario: &str, seed: u64, tier: &str, plan: Option<&Value>, extra_env: &[(String, String)]) -> Result<Value, String> {
    ns::wipe();
    let scratch = format!("{}/scratch", ns::NSROOT);
    let out = format!("{}/out.json", scratch);
    let _ = std::fs::remove_file(&out);
    let mut cmd = Command::new(bin);
    cmd.env_clear()
        .env("PATH", "/nonexistent")
        .env("VERIF_SEED", seed.to_string())
        .env("VERIF_SCENARIO", scenario)
        .env("VERIF_TIER", tier)
        .env("VERIF_OUT", &out)
        .env("RUST_BACKTRACE", "0")
        .stdin(Stdio::null())
        .stdout(Stdio::null())
        .stderr(Stdio::piped());
    for (k, v) in extra_env {
        cmd.env(k, v);
    }
    if let Some(p) = plan {
        let pf = format!("{}/plan.json", scratch);
        std::fs::write(&pf, serde_json::to_vec(p).unwrap()).map_err(|e| e.to_string())?;
        cmd.env("VERIF_PLAN", &pf);
    }
    let mut child = cmd.spawn().map_err(|e| format!("spawn {}: {}", bin, e))?;
    let t0 = Instant::now();
    let cap = Duration::from_secs(std::env::var("VERIF_WALL_CAP_S").ok().and_then(|v| v.parse().ok()).unwrap_or(180));
    loop {
        match child.try_wait() {
            Ok(Some(st)) => {
                if !st.success() {
                    let mut err = String::new();
                    if let Some(mut e) = child.stderr.take() {
                        use std::io::Read;
                        let _ = e.read_to_string(&mut err);
                    }
                    return Err(format!("child exited with {:?}: {}", st.code(), err.chars().rev().take(600).collect::<String>().chars().rev().collect::<String>()));
                }
                break;
            }
            Ok(None) => {
                if t0.elapsed() > cap {
                    let _ = child.kill();
                    let _ = child.wait();
                    return Err(format!("wall cap of {} s hit without a verdict", cap.as_secs()));
                }
                std::thread::sleep(Duration::from_millis(1));
            }
            Err(e) => return Err(e.to_string()),
        }
    }
    let data = std::fs::read(&out).map_err(|e| format!("no result file: {}", e))?;
    serde_json::from_slice(&data).map_err(|e| format!("bad result json: {}", e))
}

fn disable_aslr() {
    unsafe {
        let cur = libc::personality(0xffffffff);
        if cur != -1 {
            libc::personality((cur as libc::c_ulong) | 0x0040000); // ADDR_NO_RANDOMIZE
        }
    }
}

/// internal: `simctl worker <w> <jobs> <runs> <seed> <tier> <prop> <keep_full>`: prints one JSON line per run
fn worker_main(args: &[String]) {
    let w: u64 = args[2].parse().unwrap();
    let jobs: u64 = args[3].parse().unwrap();
    let runs: u64 = args[4].parse().unwrap();
    let base_seed: u64 = args[5].parse().unwrap();
    let tier = args[6].clone();
    let prop = args[7].clone();
    let keep_full: u64 = args[8].parse().unwrap();
    let twice = args.get(9).map(|s| s == "twice").unwrap_or(false);
    if let Err(e) = ns::enter() {
        println!("{}", json!({"harness_error": format!("namespace: {}", e)}));
        return;
    }
    disable_aslr();
    let spec = table::spec(&prop);
    let stdout = std::io::stdout();
    let mut i = w;
    while i < runs {
        let seed = mix(base_seed, i);
        let scen = table::scenario_for(&spec, i);
        let reps = if twice { 2 } else { 1 };
        let mut line = json!({});
        let mut digests = Vec::new();
        for _ in 0..reps {
            match run_child(scen.bin, &scen.name, seed, &tier, None, &[]) {
                Ok(mut r) => {
                    digests.push(format!("{}/{}", r["digest"].as_str().unwrap_or(""), r["events"]));
                    let viol = r["verdict"] != "ok";
                    if viol || !r["panics"].as_array().map(|a| a.is_empty()).unwrap_or(true) {
                        // keep the complete result for the minimiser / replay file
                        let _ = std::fs::create_dir_all("/verif/replays/tmp");
                        let path = format!("/verif/replays/tmp/{}-{}.json", prop, seed);
                        let _ = std::fs::write(&path, serde_json::to_vec(&r).unwrap());
                        r["full_path"] = json!(path);
                    }
                    if i >= keep_full && !viol {
                        if let Some(o) = r.as_object_mut() {
                            o.remove("plan");
                            o.remove("tail");
                            o.remove("samples");
                            o.remove("all_events");
                        }
                    } else if let Some(o) = r.as_object_mut() {
                        o.remove("all_events");
                    }
                    r["i"] = json!(i);
                    r["scenario"] = json!(scen.name);
                    line = r;
                }
                Err(e) => {
                    line = json!({"i": i, "seed": seed, "scenario": scen.name, "harness_error": e});
                    break;
                }
            }
        }
        if twice {
            line["digests"] = json!(digests);
        }
        let mut lock = stdout.lock();
        let _ = writeln!(lock, "{}", line);
        let _ = lock.flush();
        i += jobs;
    }
}

struct Batch {
    results: Vec<Value>,
    wall_s: f64,
}

fn run_batch(prop: &str, tier: &str, runs: u64, jobs: u64, base_seed: u64, keep_full: u64, twice: bool) -> Batch {
    let exe = std::env::current_exe().unwrap();
    let t0 = Instant::now();
    let mut children = Vec::new();
    for w in 0..jobs.min(runs.max(1)) {
        let mut c = Command::new(&exe);
        c.args(["worker", &w.to_string(), &jobs.to_string(), &runs.to_string(), &base_seed.to_string(), tier, prop, &keep_full.to_string(), if twice { "twice" } else { "once" }])
            .stdin(Stdio::null())
            .stdout(Stdio::piped())
            .stderr(Stdio::inherit());
        match c.spawn() {
            Ok(ch) => children.push(ch),
            Err(e) => harness_error(&format!("cannot start worker: {}", e)),
        }
    }
    let (tx, rx) = std::sync::mpsc::channel::<Value>();
    let mut threads = Vec::new();
    for ch in children.iter_mut() {
        let out = ch.stdout.take().unwrap();
        let tx = tx.clone();
        threads.push(std::thread::spawn(move || {
            for l in BufReader::new(out).lines().map_while(Result::ok) {
                if let Ok(v) = serde_json::from_str::<Value>(&l) {
                    let _ = tx.send(v);
                }
            }
        }));
    }
    drop(tx);
    let mut results: Vec<Value> = rx.iter().collect();
    for t in threads {
        let _ = t.join();
    }
    for mut ch in children {
        let _ = ch.wait();
    }
    results.sort_by_key(|r| r["i"].as_u64().unwrap_or(u64::MAX));
    Batch { results, wall_s: t0.elapsed().as_secs_f64() }
}

fn known_findings() -> Vec<Value> {
    match std::fs::read("/verif/known_findings.json") {
        Ok(d) => {
            let mut v = serde_json::from_slice::<Value>(&d).ok().and_then(|v| v["findings"].as_array().cloned()).unwrap_or_default();
            // development aid (tools/known_witness.sh): report one listed finding as an ordinary violation so that a
            // minimised witness replay is written for it; never set by a registered command
            if let Ok(id) = std::env::var("VERIF_WITNESS_FOR") {
                v.retain(|k| k["id"].as_str() != Some(id.as_str()));
            }
            v
        }
        Err(_) => Vec::new(),
    }
}
fn matches_known(k: &Value, v: &Value) -> bool {
    if k["status"].as_str() == Some("fixed") {
        return false; // a fixed entry suppresses nothing
    }
    k["property"] == v["property"] && v["class"].as_str().map(|c| c.contains(k["class_contains"].as_str().unwrap_or("\u{0}"))).unwrap_or(false)
        && k["detail_contains"].as_str().map(|d| v["detail"].as_str().unwrap_or("").contains(d)).unwrap_or(true)
}

fn has_violation(res: &Value, prop: &str, class: &str) -> bool {
    res["violations"].as_array().map(|a| a.iter().any(|v| v["property"] == prop && v["class"] == class)).unwrap_or(false)
}

/// delta-debugging over the explicit plan: drop steps / connections / requests / perturbation while the
/// same violation class reproduces. Runs inside the caller's namespace.
fn minimise(bin: &str, scenario: &str, seed: u64, tier: &str, mut plan: Value, prop: &str, class: &str, budget: &mut u32) -> Value {
    let mut try_plan = |cand: &Value, budget: &mut u32| -> bool {
        if *budget == 0 {
            return false;
        }
        *budget -= 1;
        match run_child(bin, scenario, seed, tier, Some(cand), &[]) {
            Ok(r) => has_violation(&r, prop, class),
            Err(_) => false,
        }
    };
    // 1. lighter scheduling / network profile
    for key in ["sched.delay_ppm", "sched.hop_ppm", "sched.victim_a", "sched.victim_b", "net.frag_ppm", "net.short_write_ppm", "net.short_read_ppm", "net.pending_ppm", "net.lat_max_ms", "net.connect_lat_max_ms"] {
        if plan["knobs"].get(key).is_some() {
            let mut c = plan.clone();
            c["knobs"].as_object_mut().unwrap().remove(key);
            if key.starts_with("net.") {
                c["knobs"][key] = json!(0);
            }
            if try_plan(&c, budget) {
                plan = c;
            }
        }
    }
    // 2. drop whole steps, then connections, then requests (repeat until no progress)
    loop {
        let mut progress = false;
        let nsteps = plan["steps"].as_array().map(|a| a.len()).unwrap_or(0);
        for i in (0..nsteps).rev() {
            // steps that establish what an oracle presupposes (quiescence before a "clean" observation, settling time)
            // are part of the judgement, not of the workload: they stay
            let t = plan["steps"][i]["t"].as_str().unwrap_or("");
            if matches!(t, "wait_polls" | "drain_faults" | "observe" | "sleep" | "wait_status_calls" | "wait_latched" | "liveness_mark" | "liveness_check" | "collect_status" | "audit_map_probe" | "clear_faults") {
                continue;
            }
            let mut c = plan.clone();
            c["steps"].as_array_mut().unwrap().remove(i);
            if try_plan(&c, budget) {
                plan = c;
                progress = true;
            }
        }
        let nsteps = plan["steps"].as_array().map(|a| a.len()).unwrap_or(0);
        for i in 0..nsteps {
            for list in ["conns", "ops", "events", "files", "cycles", "queries"] {
                // delta debugging over the list: drop halves, quarters, ... before single elements
                let mut chunk = plan["steps"][i][list].as_array().map(|a| a.len()).unwrap_or(0) / 2;
                while chunk >= 2 {
                    let mut start = 0usize;
                    loop {
                        let len = plan["steps"][i][list].as_array().map(|a| a.len()).unwrap_or(0);
                        if start >= len || len <= 1 || *budget == 0 {
                            break;
                        }
                        let end = (start + chunk).min(len);
                        if end - start >= len {
                            break;
                        }
                        let mut c = plan.clone();
                        c["steps"][i][list].as_array_mut().unwrap().drain(start..end);
                        if try_plan(&c, budget) {
                            plan = c;
                            progress = true;
                        } else {
                            start = end;
                        }
                    }
                    chunk /= 2;
                }
                let n = plan["steps"][i][list].as_array().map(|a| a.len()).unwrap_or(0);
                for j in (0..n).rev() {
                    if plan["steps"][i][list].as_array().map(|a| a.len()).unwrap_or(0) <= 1 {
                        break;
                    }
                    let mut c = plan.clone();
                    c["steps"][i][list].as_array_mut().unwrap().remove(j);
                    if try_plan(&c, budget) {
                        plan = c;
                        progress = true;
                    }
                }
                let n = plan["steps"][i][list].as_array().map(|a| a.len()).unwrap_or(0);
                for j in 0..n {
                    let nr = plan["steps"][i][list][j]["reqs"].as_array().map(|a| a.len()).unwrap_or(0);
                    for k in (0..nr).rev() {
                        if plan["steps"][i][list][j]["reqs"].as_array().map(|a| a.len()).unwrap_or(0) <= 1 {
                            break;
                        }
                        let mut c = plan.clone();
                        c["steps"][i][list][j]["reqs"].as_array_mut().unwrap().remove(k);
                        if try_plan(&c, budget) {
                            plan = c;
                            progress = true;
                        }
                    }
                }
            }
        }
        if !progress || *budget == 0 {
            break;
        }
    }
    plan
}

fn write_replay(prop: &str, scenario: &str, bin: &str, seed: u64, tier: &str, res: &Value, v: &Value, minimised: bool) -> String {
    let _ = std::fs::create_dir_all("/verif/replays");
    let path = format!("/verif/replays/{}-{}.json", prop, seed);
    let doc = json!({
        "property": prop, "violation_class": v["class"], "detail": v["detail"], "seed": seed, "scenario": scenario, "bin": bin, "tier": tier,
        "event_seq": v["seq"], "schedule_digest": res["sched_digest"], "event_digest": res["digest"], "minimised": minimised,
        "plan": res["plan"], "event_log_tail": res["tail"],
        "replay_cmd": format!("cd /verif && ./bin/check replay {}", path),
    });
    let _ = std::fs::write(&path, serde_json::to_vec_pretty(&doc).unwrap());
    path
}

fn check_main(args: &[String]) {
    let prop = args[2].clone();
    let tier = arg_val(args, "--tier").or_else(|| std::env::var("VERIF_TIER").ok()).unwrap_or_else(|| "quick".into());
    let spec = table::spec(&prop);
    if spec.scenarios.is_empty() {
        harness_error(&format!("no check registered for {}", prop));
    }
    let runs: u64 = arg_val(args, "--runs").and_then(|v| v.parse().ok()).unwrap_or(if tier == "thorough" { spec.thorough_runs } else { spec.quick_runs });
    let jobs: u64 = arg_val(args, "--jobs").or_else(|| std::env::var("VERIF_JOBS").ok()).and_then(|v| v.parse().ok()).unwrap_or(16);
    let base_seed: u64 = std::env::var("VERIF_SEED").ok().and_then(|v| v.parse().ok()).unwrap_or(DEFAULT_SEED);
    println!("check {} tier={} runs={} jobs={} VERIF_SEED={}", prop, tier, runs, jobs, base_seed);
    let batch = run_batch(&prop, &tier, runs, jobs, base_seed, 3, false);

    // aggregate
    let mut harness_errors = Vec::new();
    let mut evaluations = 0u64;
    let mut nontrivial: BTreeSet<String> = BTreeSet::new();
    let mut counters: BTreeMap<String, u64> = BTreeMap::new();
    let mut stats: BTreeMap<String, i64> = BTreeMap::new();
    let mut sim_ms_total = 0u64;
    let mut samples: Vec<Value> = Vec::new();
    let mut target_viol: Vec<(Value, Value)> = Vec::new(); // (run, violation)
    let mut other_viol: BTreeMap<String, u64> = BTreeMap::new();
    let mut known_hits: BTreeMap<String, u64> = BTreeMap::new();
    let known = known_findings();
    let mut per_scenario: BTreeMap<String, u64> = BTreeMap::new();
    for r in batch.results.iter() {
        if let Some(e) = r.get("harness_error") {
            harness_errors.push(format!("run {} seed {}: {}", r["i"], r["seed"], e));
            continue;
        }
        evaluations += 1;
        *per_scenario.entry(r["scenario"].as_str().unwrap_or("").to_string()).or_insert(0) += 1;
        sim_ms_total += r["sim_ms"].as_u64().unwrap_or(0);
        if let Some(c) = r["counters"].as_object() {
            for (k, v) in c {
                *counters.entry(k.clone()).or_insert(0) += v.as_u64().unwrap_or(0);
            }
        }
        if let Some(c) = r["stats"].as_object() {
            for (k, v) in c {
                *stats.entry(k.clone()).or_insert(0) += v.as_i64().unwrap_or(0);
            }
        }
        let prog = &r["progress"];
        let made_progress = prog.as_object().map(|o| o.values().any(|v| v.as_u64().unwrap_or(0) > 0)).unwrap_or(false);
        if made_progress {
            nontrivial.insert(format!("{}:{}", r["scenario"].as_str().unwrap_or(""), r["sched_digest"].as_str().unwrap_or("")));
        }
        if samples.len() < 3 && r.get("plan").is_some() {
            samples.push(json!({"seed": r["seed"], "scenario": r["scenario"], "workload": summarise_plan(&r["plan"]), "knobs": r["plan"]["knobs"], "progress": r["progress"], "sample_request": r["samples"].get(0), "trace_excerpt": r["tail"].as_array().map(|t| t.iter().rev().take(12).rev().cloned().collect::<Vec<_>>())}));
        }
        if let Some(n) = r["notes"].as_array() {
            for x in n {
                if x.as_str().map(|s| s.contains("HARNESS-PANIC")).unwrap_or(false) {
                    harness_errors.push(format!("run {} seed {}: {}", r["i"], r["seed"], x));
                }
            }
        }
        if let Some(vs) = r["violations"].as_array() {
            for v in vs {
                if v["property"] == prop.as_str() {
                    if let Some(k) = known.iter().find(|k| matches_known(k, v)) {
                        *known_hits.entry(k["id"].as_str().unwrap_or("?").to_string()).or_insert(0) += 1;
                    } else {
                        target_viol.push((r.clone(), v.clone()));
                    }
                } else if known.iter().any(|k| k["status"].as_str() != Some("fixed") && v["class"].as_str().map(|c| c.contains(k["class_contains"].as_str().unwrap_or("\u{0}"))).unwrap_or(false)) {
                    // a listed finding seen through another property's oracle: neither this check's business nor news
                } else {
                    if std::env::var("VERIF_LIST_VIOLATIONS").is_ok() {
                        println!("LISTOTHER seed={} {} {} | {}", r["seed"], v["property"].as_str().unwrap_or(""), v["class"].as_str().unwrap_or(""), v["detail"].as_str().unwrap_or("").chars().take(300).collect::<String>());
                    }
                    *other_viol.entry(format!("{} {}", v["property"].as_str().unwrap_or(""), v["class"].as_str().unwrap_or(""))).or_insert(0) += 1;
                }
            }
        }
    }
    if !harness_errors.is_empty() {
        for e in harness_errors.iter().take(10) {
            println!("HARNESS-ERROR {}", e);
        }
        if evaluations == 0 || harness_errors.len() as u64 * 20 > runs {
            std::process::exit(2);
        }
    }
    for (k, n) in known_hits.iter() {
        let kf = known.iter().find(|x| x["id"].as_str() == Some(k)).unwrap();
        println!("KNOWN-FINDING: property={} {} (hit in {} runs)", prop, kf["what"].as_str().unwrap_or(""), n);
    }
    for (k, n) in other_viol.iter() {
        println!("note: violation of another property seen while exploring ({}x): {} -- it is reported by that property's own check", n, k);
    }

    if std::env::var("VERIF_LIST_VIOLATIONS").is_ok() {
        for (r, v) in target_viol.iter().take(400) {
            println!("LIST seed={} {} | {}", r["seed"], v["class"].as_str().unwrap_or(""), v["detail"].as_str().unwrap_or("").chars().take(300).collect::<String>());
        }
    }
    let mut exit_code = 0;
    let mut replay_paths = Vec::new();
    if !target_viol.is_empty() {
        // distinct classes, first occurrence each; minimise in a namespace of our own
        let mut seen = BTreeSet::new();
        if let Err(e) = ns::enter() {
            harness_error(&format!("namespace: {}", e));
        }
        disable_aslr();
        for (r, v) in target_viol.iter() {
            let class = v["class"].as_str().unwrap_or("").to_string();
            if !seen.insert(class.clone()) || seen.len() > 3 {
                continue;
            }
            let seed = r["seed"].as_u64().unwrap_or(0);
            let scen = r["scenario"].as_str().unwrap_or("").to_string();
            let bin = table::bin_for(&scen);
            let full: Value = r["full_path"].as_str().and_then(|p| std::fs::read(p).ok()).and_then(|d| serde_json::from_slice(&d).ok()).unwrap_or_else(|| r.clone());
            let mut budget: u32 = std::env::var("VERIF_MIN_BUDGET").ok().and_then(|v| v.parse().ok()).unwrap_or(if tier == "thorough" { 300 } else { 120 });
            let mut best = full.clone();
            let mut minimised = false;
            if full.get("plan").map(|p| p.is_object()).unwrap_or(false) && budget > 0 {
                let minimal = minimise(bin, &scen, seed, &tier, full["plan"].clone(), &prop, &class, &mut budget);
                // replay the minimised plan once more in a fresh process; it must fail the same way
                if let Ok(rr) = run_child(bin, &scen, seed, &tier, Some(&minimal), &[]) {
                    if has_violation(&rr, &prop, &class) {
                        best = rr;
                        minimised = true;
                    }
                }
            }
            let vv = best["violations"].as_array().and_then(|a| a.iter().find(|x| x["property"] == prop.as_str() && x["class"] == class.as_str()).cloned()).unwrap_or(v.clone());
            let path = write_replay(&prop, &scen, bin, seed, &tier, &best, &vv, minimised);
            println!("violation: {} | {}", class, vv["detail"].as_str().unwrap_or(""));
            println!("VIOLATION property={} replay={}", prop, path);
            replay_paths.push(path);
        }
        exit_code = 1;
    }
    let _ = std::fs::remove_dir_all("/verif/replays/tmp");

    // evidence
    // C08: an evaluation is a restart from a crash point, not a phase-1 execution
    let (evaluations_reported, distinct_reported) = match (stats.get("c08.restarts"), stats.get("c08.distinct_crash_states")) {
        (Some(r), Some(d)) if prop == "C08" => (*r as u64, *d as usize),
        _ => match stats.get("c06.schedules") {
            Some(n) if prop == "C06" => (*n as u64, nontrivial.len()),
            _ => (evaluations, nontrivial.len()),
        },
    };
    let faults: BTreeMap<String, u64> = counters.iter().filter(|(k, _)| k.starts_with("fault.")).map(|(k, v)| (k.clone(), *v)).collect();
    let probes: BTreeMap<String, i64> = stats.clone();
    let ev = json!({
        "property_id": prop,
        "tier": tier,
        "seed": base_seed,
        "level": spec.level,
        "coverage": {
            "evaluations": evaluations_reported,
            "distinct_nontrivial": distinct_reported,
            "executions": evaluations,
            "rule": spec.rule,
            "samples": samples,
            "runs_per_scenario": per_scenario,
            "runs_per_hour": if batch.wall_s > 0.0 { (evaluations as f64 / batch.wall_s * 3600.0) as u64 } else { 0 },
            "seeds_per_hour": if batch.wall_s > 0.0 { (evaluations as f64 / batch.wall_s * 3600.0) as u64 } else { 0 },
            "simulated_time_s": sim_ms_total / 1000,
            "fault_kinds_fired": faults,
            "probes": probes,
            "scheduler": {"task_polls": counters.get("sched.polls"), "injected_delays": counters.get("sched.delays"), "injected_hops": counters.get("sched.hops"), "victim_delays": counters.get("sched.victim_delays")},
            "network": {"fragments": counters.get("net.fragments"), "short_writes": counters.get("net.short_writes"), "short_reads": counters.get("net.short_reads"), "spurious_pending": counters.get("net.spurious_pending")},
            "disk_ops_traced": counters.get("disk.ops"),
            "known_finding_hits": known_hits,
            "other_property_violations_seen": other_viol,
            "components": table::components(&prop),
            "exhaustive": spec.exhaustive,
        },
        "assumptions": table::assumptions(&prop),
        "wall_s": batch.wall_s,
        "violations": target_viol.len(),
        "replays": replay_paths,
    });
    let _ = std::fs::create_dir_all("/verif/evidence");
    // development aid: runs against a deliberately broken tree (tools/try_patch.sh, tools/seeded_regress.sh,
    // tools/known_witness.sh) must not overwrite the evidence of the real tree; never set by a registered command
    if std::env::var("VERIF_NO_EVIDENCE").is_err() {
        if let Err(e) = std::fs::write(format!("/verif/evidence/{}.json", prop), serde_json::to_vec_pretty(&ev).unwrap()) {
            harness_error(&format!("cannot write evidence: {}", e));
        }
    }
    println!(
        "{}: {} runs, {} distinct non-trivial schedules, {:.0} simulated s, {:.1} s wall, {} runs/h, violations={} known={} -> exit {}",
        prop,
        evaluations,
        nontrivial.len(),
        sim_ms_total as f64 / 1000.0,
        batch.wall_s,
        if batch.wall_s > 0.0 { (evaluations as f64 / batch.wall_s * 3600.0) as u64 } else { 0 },
        target_viol.len(),
        known_hits.values().sum::<u64>(),
        exit_code
    );
    std::process::exit(exit_code);
}

fn summarise_plan(plan: &Value) -> Value {
    let mut out = Vec::new();
    if let Some(steps) = plan["steps"].as_array() {
        for s in steps.iter().take(14) {
            match s["t"].as_str().unwrap_or("") {
                "doc" => {
                    let modes: Vec<String> = ["imds", "wireserver", "hostga"].iter().map(|e| format!("{}={}", e, s["doc"]["authorizationRules"][e]["mode"].as_str().unwrap_or("-"))).collect();
                    out.push(json!({"doc": {"version": s["doc"]["version"], "state": s["doc"].get("secureChannelState"), "enabled": s["doc"].get("secureChannelEnabled"), "modes": modes}}))
                }
                "clients" => {
                    let cl: Vec<String> = s["conns"].as_array().map(|a| a.iter().take(6).map(|c| format!("proc{}->{} x{}{}", c["proc"], c["dst"].as_str().unwrap_or(""), c["reqs"].as_array().map(|r| r.len()).unwrap_or(0), if c["pipeline"] == true { " pipelined" } else { "" })).collect()).unwrap_or_default();
                    out.push(json!({"clients": cl}))
                }
                _ => {
                    let mut c = s.clone();
                    if let Some(o) = c.as_object_mut() {
                        for (_, v) in o.iter_mut() {
                            if v.to_string().len() > 200 {
                                *v = json!(format!("{}...", v.to_string().chars().take(200).collect::<String>()));
                            }
                        }
                    }
                    out.push(c)
                }
            }
        }
    }
    json!(out)
}

fn replay_main(args: &[String]) {
    let path = &args[2];
    let doc: Value = match std::fs::read(path).ok().and_then(|d| serde_json::from_slice(&d).ok()) {
        Some(d) => d,
        None => harness_error(&format!("cannot read replay file {}", path)),
    };
    if let Err(e) = ns::enter() {
        harness_error(&format!("namespace: {}", e));
    }
    disable_aslr();
    let prop = doc["property"].as_str().unwrap_or("");
    let class = doc["violation_class"].as_str().unwrap_or("");
    let scen = doc["scenario"].as_str().unwrap_or("");
    let bin = doc["bin"].as_str().unwrap_or(AGENT_SIM);
    let seed = doc["seed"].as_u64().unwrap_or(0);
    let mut env = Vec::new();
    if args.iter().any(|a| a == "--events") {
        env.push(("VERIF_DUMP_EVENTS".to_string(), "1".to_string()));
    }
    match run_child(bin, scen, seed, doc["tier"].as_str().unwrap_or("quick"), Some(&doc["plan"]), &env) {
        Ok(r) => {
            if args.iter().any(|a| a == "--events") {
                if let Some(ev) = r["all_events"].as_array() {
                    for e in ev {
                        println!("{}", e.as_str().unwrap_or(""));
                    }
                }
            }
            let hit = r["violations"].as_array().and_then(|a| a.iter().find(|v| v["property"] == prop && v["class"] == class).cloned());
            match hit {
                Some(v) => {
                    let same_seq = v["seq"] == doc["event_seq"];
                    let same_digest = r["digest"] == doc["event_digest"];
                    println!("reproduced: property={} class={:?} event_seq={} (recorded {}) same_seq={} same_event_digest={}", prop, class, v["seq"], doc["event_seq"], same_seq, same_digest);
                    println!("detail: {}", v["detail"].as_str().unwrap_or(""));
                    println!("VIOLATION property={} replay={}", prop, path);
                    std::process::exit(1);
                }
                None => {
                    println!("not reproduced: verdict={} violations={}", r["verdict"], r["violations"]);
                    std::process::exit(0);
                }
            }
        }
        Err(e) => harness_error(&e),
    }
}

fn determinism_main(args: &[String]) {
    let prop = args[2].clone();
    let runs: u64 = arg_val(args, "--runs").and_then(|v| v.parse().ok()).unwrap_or(200);
    let base_seed: u64 = std::env::var("VERIF_SEED").ok().and_then(|v| v.parse().ok()).unwrap_or(DEFAULT_SEED);
    let tier = arg_val(args, "--tier").unwrap_or_else(|| "quick".into());
    // pass 1: each seed twice in the same worker, 16 workers; pass 2: 3 workers; compare across passes too
    let a = run_batch(&prop, &tier, runs, 16, base_seed, 0, true);
    let b = run_batch(&prop, &tier, runs, 3, base_seed, 0, true);
    let mut bad = 0;
    let mut map: BTreeMap<u64, Vec<String>> = BTreeMap::new();
    for r in a.results.iter().chain(b.results.iter()) {
        if r.get("harness_error").is_some() {
            println!("HARNESS-ERROR {}", r);
            bad += 1;
            continue;
        }
        let e = map.entry(r["i"].as_u64().unwrap_or(0)).or_default();
        if let Some(d) = r["digests"].as_array() {
            for x in d {
                e.push(x.as_str().unwrap_or("").to_string());
            }
        }
    }
    let mut distinct = BTreeSet::new();
    for (i, ds) in map.iter() {
        let s: BTreeSet<&String> = ds.iter().collect();
        if s.len() != 1 || ds.len() != 4 {
            println!("DIVERGENCE run {} seed {} digests {:?}", i, mix(base_seed, *i), ds);
            bad += 1;
        } else {
            distinct.insert(ds[0].clone());
        }
    }
    println!("determinism {}: {} seeds x 4 executions (2 per worker, 16 and 3 workers), {} distinct event logs, {} divergences, {:.1}+{:.1} s", prop, map.len(), distinct.len(), bad, a.wall_s, b.wall_s);
    std::process::exit(if bad == 0 { 0 } else { 2 });
}

fn main() {
    let args: Vec<String> = std::env::args().collect();
    match args.get(1).map(|s| s.as_str()) {
        Some("nsrun") => {
            if let Err(e) = ns::enter() {
                harness_error(&format!("namespace: {}", e));
            }
            disable_aslr();
            ns::wipe();
            let st = Command::new(&args[2]).args(&args[3..]).env("PATH", "/nonexistent").status().unwrap();
            std::process::exit(st.code().unwrap_or(2));
        }
        Some("worker") => worker_main(&args),
        Some("check") if args.len() >= 3 => check_main(&args),
        Some("replay") if args.len() >= 3 => replay_main(&args),
        Some("determinism") if args.len() >= 3 => determinism_main(&args),
        _ => {
            eprintln!("usage: simctl check <PROP> [--tier quick|thorough] [--runs N] [--jobs J] | replay <file> [--events] | determinism <PROP> [--runs N] | nsrun <cmd>");
            std::process::exit(2);
        }
    }
}
