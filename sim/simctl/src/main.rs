mod ns;
use std::process::Command;

fn main() {
    let args: Vec<String> = std::env::args().collect();
    match args.get(1).map(|s| s.as_str()) {
        Some("nsrun") => {
            if let Err(e) = ns::enter() {
                eprintln!("HARNESS-ERROR namespace: {}", e);
                std::process::exit(2);
            }
            ns::wipe();
            ns::install_config(&serde_json::json!({})).unwrap();
            let st = Command::new(&args[2]).args(&args[3..]).env("PATH", "/nonexistent").status().unwrap();
            std::process::exit(st.code().unwrap_or(2));
        }
        _ => {
            eprintln!("usage: simctl nsrun <cmd> [args]");
            std::process::exit(2);
        }
    }
}
