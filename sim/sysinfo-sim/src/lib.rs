//! Stand-in for the subset of `sysinfo` 0.30 the agent uses, answered from the simulated process table.
use std::path::{Path, PathBuf};

#[derive(Clone, Copy, Debug, PartialEq, Eq, PartialOrd, Ord)]
pub struct Pid(u32);
impl Pid {
    pub fn from_u32(v: u32) -> Pid {
        Pid(v)
    }
    pub fn as_u32(&self) -> u32 {
        self.0
    }
}
#[derive(Clone, Copy, Debug, Default)]
pub enum UpdateKind {
    #[default]
    Never,
    Always,
    OnlyIfNotSet,
}
#[derive(Clone, Copy, Debug, Default)]
pub struct ProcessRefreshKind;
impl ProcessRefreshKind {
    pub fn new() -> Self {
        ProcessRefreshKind
    }
    pub fn everything() -> Self {
        ProcessRefreshKind
    }
    pub fn with_cmd(self, _k: UpdateKind) -> Self {
        self
    }
    pub fn with_exe(self, _k: UpdateKind) -> Self {
        self
    }
}
#[derive(Clone, Copy, Debug, Default)]
pub struct MemoryRefreshKind;
impl MemoryRefreshKind {
    pub fn new() -> Self {
        MemoryRefreshKind
    }
    pub fn everything() -> Self {
        MemoryRefreshKind
    }
}
#[derive(Clone, Copy, Debug, Default)]
pub struct CpuRefreshKind;
impl CpuRefreshKind {
    pub fn new() -> Self {
        CpuRefreshKind
    }
    pub fn everything() -> Self {
        CpuRefreshKind
    }
}
#[derive(Clone, Copy, Debug, Default)]
pub struct RefreshKind {
    procs: bool,
}
impl RefreshKind {
    pub fn new() -> Self {
        RefreshKind { procs: false }
    }
    pub fn with_processes(mut self, _k: ProcessRefreshKind) -> Self {
        self.procs = true;
        self
    }
    pub fn with_memory(self, _k: MemoryRefreshKind) -> Self {
        self
    }
    pub fn with_cpu(self, _k: CpuRefreshKind) -> Self {
        self
    }
}
pub struct Process {
    exe: Option<PathBuf>,
    cmd: Vec<String>,
    pid: Pid,
}
impl Process {
    pub fn exe(&self) -> Option<&Path> {
        self.exe.as_deref()
    }
    pub fn cmd(&self) -> &[String] {
        &self.cmd
    }
    pub fn pid(&self) -> Pid {
        self.pid
    }
}
pub struct Cpu;
pub struct System {
    procs: std::collections::BTreeMap<Pid, Process>,
    total_memory: u64,
    cpus: Vec<Cpu>,
}
impl System {
    pub fn new_with_specifics(k: RefreshKind) -> System {
        let (procs, mem, ncpu) = vrt::procs::with(|t| {
            let mut m = std::collections::BTreeMap::new();
            if k.procs {
                for (pid, p) in t.procs.iter() {
                    m.insert(Pid(*pid), Process { exe: p.exe.clone().map(PathBuf::from), cmd: p.cmd.clone(), pid: Pid(*pid) });
                }
            }
            (m, t.total_memory, t.cpus)
        });
        System { procs, total_memory: mem, cpus: (0..ncpu).map(|_| Cpu).collect() }
    }
    pub fn process(&self, pid: Pid) -> Option<&Process> {
        self.procs.get(&pid)
    }
    pub fn total_memory(&self) -> u64 {
        self.total_memory
    }
    pub fn cpus(&self) -> &[Cpu] {
        &self.cpus
    }
}
