//! Stand-in for the subset of `uzers` 0.12 the agent uses, answered from the simulated user database.
use std::ffi::{OsStr, OsString};

#[derive(Clone, Debug)]
pub struct User {
    uid: u32,
    name: OsString,
    gid: u32,
}
impl User {
    pub fn uid(&self) -> u32 {
        self.uid
    }
    pub fn name(&self) -> &OsStr {
        &self.name
    }
    pub fn primary_group_id(&self) -> u32 {
        self.gid
    }
}
#[derive(Clone, Debug)]
pub struct Group {
    gid: u32,
    name: OsString,
}
impl Group {
    pub fn gid(&self) -> u32 {
        self.gid
    }
    pub fn name(&self) -> &OsStr {
        &self.name
    }
}
pub fn get_user_by_uid(uid: u32) -> Option<User> {
    vrt::procs::get_user(uid).map(|u| User { uid: u.uid, name: u.name, gid: u.primary_gid })
}
pub fn get_user_groups<S: AsRef<OsStr> + ?Sized>(username: &S, _gid: u32) -> Option<Vec<Group>> {
    let name = username.as_ref().to_os_string();
    vrt::procs::with(|t| {
        t.users.values().find(|u| u.name == name).map(|u| u.groups.iter().map(|(g, n)| Group { gid: *g, name: n.clone() }).collect())
    })
}
