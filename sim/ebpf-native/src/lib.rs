//! The repository's `linux-ebpf/ebpf_cgroup.c`, compiled natively and unchanged (see build.rs), with the
//! BPF helpers implemented here on top of `vrt::kernel`'s map store.
//!
//! Helper semantics follow the kernel documentation (bpf-helpers(7)):
//!   bpf_get_current_pid_tgid() = tgid << 32 | tid
//!   bpf_get_current_uid_gid()  = gid  << 32 | uid
//!   map lookup returns a pointer to the value or NULL; update/delete return 0 or -errno.
use std::cell::RefCell;
use std::ffi::c_void;
use std::sync::atomic::{AtomicPtr, Ordering};
use vrt::kernel::{self, MapDef, SockAddrCtx, SockCommon, TaskIds};

#[repr(C)]
#[derive(Default)]
struct BpfSockAddr {
    user_family: u32,
    user_ip4: u32,
    user_ip6: [u32; 4],
    user_port: u32,
    family: u32,
    type_: u32,
    protocol: u32,
    msg_src_ip4: u32,
    msg_src_ip6: [u32; 4],
    sk: u64,
}

extern "C" {
    fn sim_map_index(m: *mut c_void) -> i32;
    fn sim_map_info(idx: i32, t: *mut i32, k: *mut i32, v: *mut i32, m: *mut i32) -> i32;
    fn sim_struct_sizes(which: i32) -> i32;
    fn sim_run_connect4(ctx: *mut BpfSockAddr) -> i32;
    fn sim_run_kprobe(daddr: u32, dport: u16, num: u16, family: u16) -> i32;
}

/// Called at the start of every helper: a scheduling point for engine B. Default: nothing.
static YIELD_HOOK: AtomicPtr<()> = AtomicPtr::new(std::ptr::null_mut());
/// Who is the current task. Default: `vrt::kernel::current_task`.
static TASK_HOOK: AtomicPtr<()> = AtomicPtr::new(std::ptr::null_mut());

pub fn set_yield_hook(f: fn()) {
    YIELD_HOOK.store(f as *mut (), Ordering::SeqCst);
}
pub fn set_task_hook(f: fn() -> TaskIds) {
    TASK_HOOK.store(f as *mut (), Ordering::SeqCst);
}
fn yield_point() {
    let p = YIELD_HOOK.load(Ordering::SeqCst);
    if !p.is_null() {
        let f: fn() = unsafe { std::mem::transmute(p) };
        f();
    }
}
fn task() -> TaskIds {
    let p = TASK_HOOK.load(Ordering::SeqCst);
    if !p.is_null() {
        let f: fn() -> TaskIds = unsafe { std::mem::transmute(p) };
        f()
    } else {
        kernel::current_task()
    }
}

thread_local! {
    // storage for values returned by lookup (the program reads through the pointer right away);
    // a small ring so that two live lookups (policy + local entry) never alias
    static LOOKUP_SLOTS: RefCell<(usize, Vec<Vec<u8>>)> = RefCell::new((0, vec![Vec::new(); 1024]));
}

fn map_of(m: *mut c_void) -> Option<(usize, MapDef)> {
    let idx = unsafe { sim_map_index(m) };
    if idx < 0 {
        return None;
    }
    Some((idx as usize, kernel::map_def(idx as usize)))
}

#[no_mangle]
pub unsafe extern "C" fn sim_bpf_map_lookup_elem(map: *mut c_void, key: *const c_void) -> *mut c_void {
    yield_point();
    let (idx, def) = match map_of(map) {
        Some(x) => x,
        None => return std::ptr::null_mut(),
    };
    let k = std::slice::from_raw_parts(key as *const u8, def.key_size);
    match kernel::map_lookup(idx, k) {
        Some(v) => LOOKUP_SLOTS.with(|s| {
            let mut s = s.borrow_mut();
            let i = s.0;
            s.0 = (i + 1) % 1024;
            s.1[i] = v;
            s.1[i].as_mut_ptr() as *mut c_void
        }),
        None => std::ptr::null_mut(),
    }
}
#[no_mangle]
pub unsafe extern "C" fn sim_bpf_map_update_elem(map: *mut c_void, key: *const c_void, value: *const c_void, flags: u64) -> i64 {
    yield_point();
    let (idx, def) = match map_of(map) {
        Some(x) => x,
        None => return -22,
    };
    let k = std::slice::from_raw_parts(key as *const u8, def.key_size);
    let v = std::slice::from_raw_parts(value as *const u8, def.value_size);
    kernel::map_update_flags(idx, k, v, flags) as i64
}
#[no_mangle]
pub unsafe extern "C" fn sim_bpf_map_delete_elem(map: *mut c_void, key: *const c_void) -> i64 {
    yield_point();
    let (idx, def) = match map_of(map) {
        Some(x) => x,
        None => return -22,
    };
    let k = std::slice::from_raw_parts(key as *const u8, def.key_size);
    kernel::map_delete(idx, k) as i64
}
#[no_mangle]
pub extern "C" fn sim_bpf_get_current_pid_tgid() -> u64 {
    yield_point();
    let t = task();
    ((t.tgid as u64) << 32) | t.tid as u64
}
#[no_mangle]
pub extern "C" fn sim_bpf_get_current_uid_gid() -> u64 {
    yield_point();
    let t = task();
    ((t.gid as u64) << 32) | t.uid as u64
}
#[no_mangle]
pub extern "C" fn sim_bpf_get_socket_cookie(_ctx: *mut c_void) -> u64 {
    1
}
#[no_mangle]
pub unsafe extern "C" fn sim_bpf_probe_read(dst: *mut c_void, size: u32, src: *const c_void) -> i64 {
    yield_point();
    std::ptr::copy_nonoverlapping(src as *const u8, dst as *mut u8, size as usize);
    0
}

pub fn map_defs() -> [MapDef; 4] {
    let mut out: [MapDef; 4] = Default::default();
    let (hash, lru) = unsafe { (sim_struct_sizes(7), sim_struct_sizes(8)) };
    for i in 0..4 {
        let (mut t, mut k, mut v, mut m) = (0, 0, 0, 0);
        let r = unsafe { sim_map_info(i as i32, &mut t, &mut k, &mut v, &mut m) };
        assert_eq!(r, 0);
        assert!(t == hash || t == lru, "unexpected map type {}", t);
        out[i] = MapDef { lru: t == lru, key_size: k as usize, value_size: v as usize, max_entries: m as usize };
    }
    out
}
/// sizes of the C structs, for the layout cross-check against the Rust encoders
pub fn struct_size(which: i32) -> i32 {
    unsafe { sim_struct_sizes(which) }
}

fn run_connect4(ctx: &mut SockAddrCtx) -> i32 {
    assert_eq!(unsafe { sim_struct_sizes(5) } as usize, std::mem::size_of::<BpfSockAddr>());
    let mut c = BpfSockAddr {
        user_family: ctx.user_family,
        user_ip4: ctx.user_ip4,
        user_port: ctx.user_port,
        family: ctx.family,
        type_: ctx.sock_type,
        protocol: ctx.protocol,
        ..Default::default()
    };
    let r = unsafe { sim_run_connect4(&mut c) };
    ctx.user_ip4 = c.user_ip4;
    ctx.user_port = c.user_port;
    r
}
fn run_kprobe(sk: &SockCommon) -> i32 {
    unsafe { sim_run_kprobe(sk.daddr, sk.dport, sk.num, sk.family) }
}

/// Register the compiled program as the simulated kernel's hook programs.
pub fn install() {
    kernel::install_programs(map_defs(), run_connect4, run_kprobe);
}
pub fn connect4(ctx: &mut SockAddrCtx) -> i32 {
    run_connect4(ctx)
}
pub fn kprobe(sk: &SockCommon) -> i32 {
    run_kprobe(sk)
}
