/* Shim for <bpf/bpf_helpers.h>: the same declaration macros libbpf uses (so map definitions can be read
 * back with sizeof), helpers as ordinary functions implemented by the simulator. */
#ifndef VERIF_BPF_HELPERS_H
#define VERIF_BPF_HELPERS_H
#include <linux/types.h>
#include <stddef.h>

#define SEC(name) __attribute__((section(".verif." name), used))
#undef SEC
#define SEC(name)
#define __uint(name, val) int (*name)[val]
#define __type(name, val) typeof(val) *name
#define __array(name, val) typeof(val) *name[]
#ifndef __always_inline
#define __always_inline inline __attribute__((always_inline))
#endif
#ifndef __bitwise
#define __bitwise
#endif

void *sim_bpf_map_lookup_elem(void *map, const void *key);
long sim_bpf_map_update_elem(void *map, const void *key, const void *value, __u64 flags);
long sim_bpf_map_delete_elem(void *map, const void *key);
__u64 sim_bpf_get_current_pid_tgid(void);
__u64 sim_bpf_get_current_uid_gid(void);
__u64 sim_bpf_get_socket_cookie(void *ctx);
long sim_bpf_probe_read(void *dst, __u32 size, const void *unsafe_ptr);

#define bpf_map_lookup_elem(m, k) sim_bpf_map_lookup_elem((void *)(m), (k))
#define bpf_map_update_elem(m, k, v, f) sim_bpf_map_update_elem((void *)(m), (k), (v), (f))
#define bpf_map_delete_elem(m, k) sim_bpf_map_delete_elem((void *)(m), (k))
#define bpf_get_current_pid_tgid() sim_bpf_get_current_pid_tgid()
#define bpf_get_current_uid_gid() sim_bpf_get_current_uid_gid()
#define bpf_get_socket_cookie(c) sim_bpf_get_socket_cookie((void *)(c))
#define bpf_probe_read(d, s, p) sim_bpf_probe_read((d), (s), (p))
#define bpf_probe_read_kernel(d, s, p) sim_bpf_probe_read((d), (s), (p))
#define bpf_printk(fmt, ...) ((void)0)
#endif
