/* Includes the repository's program unchanged and exposes map metadata and entry points. */
#include VERIF_EBPF_SOURCE

int sim_map_index(void *m)
{
    if (m == (void *)&skip_process_map) return 0;
    if (m == (void *)&policy_map) return 1;
    if (m == (void *)&audit_map) return 2;
    if (m == (void *)&local_map) return 3;
    return -1;
}

#define MAP_INFO(m, i)                                  \
    if (idx == i) {                                     \
        *type = (int)(sizeof(*(m).type) / sizeof(int)); \
        *key_size = (int)sizeof(*(m).key);              \
        *value_size = (int)sizeof(*(m).value);          \
        *max_entries = (int)(sizeof(*(m).max_entries) / sizeof(int)); \
        return 0;                                       \
    }

int sim_map_info(int idx, int *type, int *key_size, int *value_size, int *max_entries)
{
    MAP_INFO(skip_process_map, 0)
    MAP_INFO(policy_map, 1)
    MAP_INFO(audit_map, 2)
    MAP_INFO(local_map, 3)
    return -1;
}

int sim_struct_sizes(int which)
{
    switch (which) {
    case 0: return (int)sizeof(sock_addr_skip_process_entry);
    case 1: return (int)sizeof(destination_entry);
    case 2: return (int)sizeof(sock_addr_audit_key);
    case 3: return (int)sizeof(sock_addr_audit_entry);
    case 4: return (int)sizeof(sock_addr_local_entry);
    case 5: return (int)sizeof(struct bpf_sock_addr);
    case 6: return (int)sizeof(struct sock_common);
    case 7: return BPF_MAP_TYPE_HASH;
    case 8: return BPF_MAP_TYPE_LRU_HASH;
    }
    return -1;
}

int sim_run_connect4(struct bpf_sock_addr *ctx) { return connect4(ctx); }

int sim_run_kprobe(__u32 daddr, __u16 dport, __u16 num, __u16 family)
{
    struct probe_sock sk;
    __builtin_memset(&sk, 0, sizeof(sk));
    sk.__sk_common.skc_daddr = daddr;
    sk.__sk_common.skc_dport = dport;
    sk.__sk_common.skc_num = num;
    sk.__sk_common.skc_family = family;
    return tcp_v4_connect((struct pt_regs *)0, &sk);
}
