// Compile the repository's eBPF C program natively, unchanged, against shim helper headers.
fn main() {
    let repo = std::env::var("VERIF_REPO").unwrap_or_else(|_| "/repo".to_string());
    let src_dir = format!("{}/linux-ebpf", repo);
    println!("cargo:rerun-if-changed={}/ebpf_cgroup.c", src_dir);
    println!("cargo:rerun-if-changed={}/socket.h", src_dir);
    println!("cargo:rerun-if-changed=c/wrapper.c");
    println!("cargo:rerun-if-changed=shim/bpf/bpf_helpers.h");
    println!("cargo:rerun-if-changed=shim/bpf/bpf_tracing.h");
    println!("cargo:rerun-if-env-changed=VERIF_REPO");
    cc::Build::new()
        .file("c/wrapper.c")
        .include("shim")
        .include(&src_dir)
        .include("/usr/include/x86_64-linux-gnu")
        .define("VERIF_EBPF_SOURCE", Some(format!("\"{}/ebpf_cgroup.c\"", src_dir).as_str()))
        .flag("-O1")
        .flag("-fno-strict-aliasing")
        .flag("-Wno-unused-variable")
        .flag("-Wno-unused-function")
        .flag("-Wno-unused-parameter")
        .flag("-Wno-sign-compare")
        .flag("-Wno-format")
        .compile("ebpf_native");
}
