//! setup-sim (engine C, property C17): the real `proxy_agent_setup` binary, built from /repo, run in the
//! worker's private mount namespace (overlays on /etc, /usr/sbin, /usr/lib, /var/lib, /var/log) with a
//! stand-in `systemctl` first in PATH, driven through seeded command histories and compared, after every
//! command, with a file-tree reference model. The overlay upper directories show exactly what a command
//! changed under the system roots, so "nothing else was touched" is checked literally.
//!
//!   VERIF_SEED, VERIF_PLAN (optional), VERIF_OUT, VERIF_TIER

use serde_json::{json, Value};
use std::collections::BTreeMap;
use std::path::Path;
use vrt::Rng;

const SETUP_BIN: &str = "/verif/.build/setup-target/release/proxy_agent_setup";
const NSROOT: &str = "/verif/.build/nsroot";
const EXE: &str = "/usr/sbin/azure-proxy-agent";
const CFG: &str = "/etc/azure/proxy-agent.json";
const EBPF: &str = "/usr/lib/azure-proxy-agent/ebpf_cgroup.o";
const UNIT: &str = "/usr/lib/systemd/system/azure-proxy-agent.service";

type Tree = BTreeMap<String, Option<Vec<u8>>>; // path -> content (None = absent)

fn read(p: &str) -> Option<Vec<u8>> {
    std::fs::read(p).ok()
}
fn write(p: &str, data: &[u8], exec: bool) {
    if let Some(d) = Path::new(p).parent() {
        let _ = std::fs::create_dir_all(d);
    }
    std::fs::write(p, data).expect("write");
    if exec {
        use std::os::unix::fs::PermissionsExt;
        let _ = std::fs::set_permissions(p, std::fs::Permissions::from_mode(0o755));
    }
}

/// an "agent executable": answers --version, carries arbitrary trailing bytes
fn agent_script(version: &str, r: &mut Rng, version_fails: bool) -> Vec<u8> {
    let mut s = format!("#!/bin/sh\nif [ \"$1\" = \"--version\" ]; then {}; fi\nexit 0\n# ", if version_fails { "exit 3".to_string() } else { format!("echo {}; exit 0", version) }).into_bytes();
    // half of the files come in one of two fixed sizes, so that different versions of a file often have the same
    // length (a copy that trusts sizes or timestamps instead of content is then wrong)
    let n = if r.chance(1, 2) { *r.pick(&[0usize, 50]) } else { r.below(300) as usize };
    for _ in 0..n {
        s.push(b'a' + r.below(26) as u8);
    }
    s.push(b'\n');
    s
}
fn blob(r: &mut Rng, tag: &str) -> Vec<u8> {
    let mut v = format!("{}:", tag).into_bytes();
    if r.chance(1, 2) {
        let total = *r.pick(&[32usize, 512]);
        let mut b = vec![0u8; total - v.len()];
        r.fill(&mut b);
        v.extend(b);
        return v;
    }
    let n = r.below(2000) as usize;
    let mut b = vec![0u8; n];
    r.fill(&mut b);
    v.extend(b);
    v
}

fn gen_plan(seed: u64, tier: &str) -> Value {
    let mut r = Rng::derive(seed, "work");
    let installed = r.chance(2, 3);
    let backup_present = r.chance(1, 3);
    let n = 1 + r.below(if tier == "thorough" { 8 } else { 6 });
    let mut cmds = Vec::new();
    // bias: the upgrade round trip backup -> install -> restore appears often
    if r.chance(1, 2) {
        cmds.push(json!(["backup"]));
        cmds.push(json!(["install"]));
        cmds.push(json!(if r.chance(1, 2) { vec!["restore"] } else { vec!["restore", "false"] }));
    }
    // bias: uninstalling in two steps (the service first, the package later), where the second command finds no unit
    if r.chance(1, 4) {
        if r.chance(1, 2) {
            cmds.push(json!(["install"]));
        }
        cmds.push(json!(["uninstall", "service"]));
        cmds.push(json!(["uninstall", "package"]));
    }
    while cmds.len() < n as usize {
        cmds.push(match r.below(8) {
            0 => json!(["backup"]),
            1 | 2 => json!(["install"]),
            3 => json!(["restore"]),
            4 => json!(["restore", "false"]),
            5 => json!(["uninstall", *r.pick(&["service", "package"])]),
            6 => json!(["uninstall"]),
            _ => json!(["purge"]),
        });
    }
    let fault = match r.below(8) {
        0 | 2 | 3 => json!({"systemctl_fails": *r.pick(&["stop", "start", "enable", "enable", "daemon-reload", "disable", "unmask"])}),
        1 => json!({"package_missing": *r.pick(&["proxy-agent.json", "ebpf_cgroup.o"])}),
        _ => Value::Null,
    };
    json!({"scenario": "setup:C17", "seed": seed, "installed": installed, "backup_present": backup_present, "package_version": *r.pick(&["1.0.30", "1.0.31", "9.9.9"]), "installed_version": *r.pick(&["1.0.29", "1.0.30"]), "cmds": cmds, "fault": fault})
}

fn system_state() -> Tree {
    let mut t = Tree::new();
    for p in [EXE, CFG, EBPF, UNIT] {
        t.insert(p.to_string(), read(p));
    }
    t
}
fn dir_state(dir: &str, out: &mut Tree) {
    if let Ok(rd) = std::fs::read_dir(dir) {
        for e in rd.flatten() {
            let p = e.path();
            let ps = p.to_string_lossy().to_string();
            if p.is_dir() {
                out.insert(format!("{}/", ps), Some(Vec::new()));
                dir_state(&ps, out);
            } else {
                out.insert(ps.clone(), read(&ps));
            }
        }
    }
}

/// everything that exists in the overlay upper directories = everything changed under the system roots
fn upper_state() -> Tree {
    let mut all = Tree::new();
    for (name, root) in [("etc", "/etc"), ("varlog", "/var/log"), ("varlib", "/var/lib"), ("usrsbin", "/usr/sbin"), ("usrlib", "/usr/lib")] {
        let up = format!("{}/{}.up", NSROOT, name);
        let mut t = Tree::new();
        dir_state(&up, &mut t);
        for (k, v) in t {
            all.insert(format!("{}{}", root, &k[up.len()..]), v);
        }
    }
    all
}
#[allow(dead_code)]
fn changed_under_roots() -> Vec<String> {
    let mut out = Vec::new();
    for (name, root) in [("etc", "/etc"), ("varlog", "/var/log"), ("varlib", "/var/lib"), ("usrsbin", "/usr/sbin"), ("usrlib", "/usr/lib")] {
        let up = format!("{}/{}.up", NSROOT, name);
        let mut t = Tree::new();
        dir_state(&up, &mut t);
        for k in t.keys() {
            out.push(format!("{}{}", root, &k[up.len()..]));
        }
    }
    out
}
// (the two entries without a trailing slash are the whiteouts the overlay shows when the machine's own root already
// has such a directory and the run's wipe removed it)
const ALLOWED: [&str; 10] = ["/etc/azure/", "/etc/azure/proxy-agent.json", "/usr/sbin/azure-proxy-agent", "/usr/lib/azure-proxy-agent/", "/usr/lib/azure-proxy-agent/ebpf_cgroup.o", "/usr/lib/systemd/", "/usr/lib/systemd/system/", "/usr/lib/systemd/system/azure-proxy-agent.service", "/etc/azure", "/usr/lib/azure-proxy-agent"];

fn sha(data: &Option<Vec<u8>>) -> String {
    match data {
        None => "-".into(),
        Some(d) => format!("{:016x}:{}", d.iter().fold(0xcbf29ce484222325u64, |a, b| (a ^ *b as u64).wrapping_mul(0x100000001b3)), d.len()),
    }
}

fn main() {
    let seed: u64 = std::env::var("VERIF_SEED").ok().and_then(|v| v.parse().ok()).unwrap_or(1);
    let tier = std::env::var("VERIF_TIER").unwrap_or_else(|_| "quick".into());
    let plan: Value = match std::env::var("VERIF_PLAN") {
        Ok(p) => serde_json::from_slice(&std::fs::read(p).expect("plan")).expect("plan json"),
        Err(_) => gen_plan(seed, &tier),
    };
    let t0 = std::time::Instant::now();
    let mut r = Rng::derive(seed, "files");
    let mut violations: Vec<(String, String)> = Vec::new();
    let mut notes: Vec<String> = Vec::new();
    if !Path::new(SETUP_BIN).exists() {
        notes.push(format!("HARNESS-PANIC setup binary {} not built", SETUP_BIN));
    }
    // ---- the world: setup directory, stand-in systemctl, initial system state
    let sdir = format!("{}/scratch/setup", NSROOT);
    let bindir = format!("{}/scratch/bin", NSROOT);
    let journal = format!("{}/scratch/journal.txt", NSROOT);
    let _ = std::fs::remove_dir_all(&sdir);
    std::fs::create_dir_all(format!("{}/ProxyAgent", sdir)).unwrap();
    std::fs::create_dir_all(&bindir).unwrap();
    std::fs::create_dir_all("/usr/lib/systemd/system").unwrap();
    std::fs::copy(SETUP_BIN, format!("{}/proxy_agent_setup", sdir)).unwrap_or(0);
    let fail_verb = plan["fault"]["systemctl_fails"].as_str().unwrap_or("").to_string();
    let systemctl = format!(
        "#!/bin/sh\nh() {{ if [ -e \"$1\" ]; then /usr/bin/sha256sum < \"$1\" | /usr/bin/cut -c1-16; else echo -; fi; }}\necho \"$* | $(h {}) $(h {}) $(h {}) $(h {})\" >> {}\nif [ \"$1\" = \"{}\" ]; then exit 1; fi\n# like the real tool: verbs that name a unit fail when its unit file does not exist\ncase \"$1\" in stop) [ -e {} ] || exit 5;; disable|enable|start) [ -e {} ] || exit 1;; esac\nexit 0\n",
        EXE, CFG, EBPF, UNIT, journal, fail_verb, UNIT, UNIT
    );
    write(&format!("{}/systemctl", bindir), systemctl.as_bytes(), true);
    let pkg_ver = plan["package_version"].as_str().unwrap_or("1.0.31");
    let pkg: BTreeMap<&str, Vec<u8>> = [("azure-proxy-agent", agent_script(pkg_ver, &mut r, false)), ("proxy-agent.json", blob(&mut r, "pkgcfg")), ("ebpf_cgroup.o", blob(&mut r, "pkgebpf"))].into_iter().collect();
    let pkg_unit = blob(&mut r, "pkgunit");
    let missing = plan["fault"]["package_missing"].as_str().unwrap_or("").to_string();
    for (n, d) in pkg.iter() {
        if *n != missing {
            write(&format!("{}/ProxyAgent/{}", sdir, n), d, *n == "azure-proxy-agent");
        }
    }
    write(&format!("{}/azure-proxy-agent.service", sdir), &pkg_unit, false);
    write(&format!("{}/readme.txt", sdir), b"not to be touched", false);
    if plan["installed"].as_bool().unwrap_or(false) {
        let v = plan["installed_version"].as_str().unwrap_or("1.0.29");
        write(EXE, &agent_script(v, &mut r, false), true);
        write(CFG, &blob(&mut r, "cfg"), false);
        write(EBPF, &blob(&mut r, "ebpf"), false);
        write(UNIT, &blob(&mut r, "unit"), false);
    }
    if plan["backup_present"].as_bool().unwrap_or(false) {
        write(&format!("{}/ProxyAgent/Backup/Package/azure-proxy-agent", sdir), &agent_script("1.0.1", &mut r, false), true);
        write(&format!("{}/ProxyAgent/Backup/Package/proxy-agent.json", sdir), &blob(&mut r, "bcfg"), false);
        write(&format!("{}/ProxyAgent/Backup/Package/ebpf_cgroup.o", sdir), &blob(&mut r, "bebpf"), false);
        write(&format!("{}/ProxyAgent/Backup/azure-proxy-agent.service", sdir), &blob(&mut r, "bunit"), false);
    }
    // a package file that is missing changes what a command can do (the model does not cover that): such histories are only
    // checked for containment. A failing systemctl verb changes nothing about which files a command must leave behind.
    let faulty = plan["fault"]["package_missing"].is_string();
    // ---- reference model state
    let mut model_sys = system_state();
    let bk = |n: &str| format!("{}/ProxyAgent/Backup/{}", sdir, n);
    let bfiles = ["Package/azure-proxy-agent", "Package/proxy-agent.json", "Package/ebpf_cgroup.o", "azure-proxy-agent.service"];
    let mut model_bak: Tree = bfiles.iter().map(|n| (n.to_string(), read(&bk(n)))).collect();
    let start_of_history = model_sys.clone();
    let mut after_backup: Option<Tree> = None;
    let mut installed_since_backup = false;
    let mut executed = 0u64;

    for (ci, c) in plan["cmds"].as_array().cloned().unwrap_or_default().iter().enumerate() {
        let args: Vec<String> = c.as_array().map(|a| a.iter().map(|x| x.as_str().unwrap_or("").to_string()).collect()).unwrap_or_default();
        let _ = std::fs::remove_file(&journal);
        let mut before_setup = Tree::new();
        dir_state(&sdir, &mut before_setup);
        let sys_before = system_state();
        let upper_before = upper_state();
        let out = std::process::Command::new(format!("{}/proxy_agent_setup", sdir)).args(&args).env_clear().env("PATH", format!("{}:/usr/bin:/bin", bindir)).output();
        executed += 1;
        let (code, stdout) = match out {
            Ok(o) => (o.status.code().unwrap_or(-1), String::from_utf8_lossy(&o.stdout).to_string() + &String::from_utf8_lossy(&o.stderr)),
            Err(e) => {
                notes.push(format!("HARNESS-PANIC cannot run setup tool: {}", e));
                break;
            }
        };
        let jr = std::fs::read_to_string(&journal).unwrap_or_default();
        let jlines: Vec<&str> = jr.lines().collect();
        let what = format!("command #{} {:?} (exit {})", ci, args, code);
        // ---- reference transition
        let has_backup = model_bak["Package/azure-proxy-agent"].is_some();
        let sys_hash = |t: &Tree| format!("{} {} {} {}", sha16(&t[EXE]), sha16(&t[CFG]), sha16(&t[EBPF]), sha16(&t[UNIT]));
        let mut expect_journal: Option<(String, String)> = None; // (hashes at stop, hashes at start)
        match args[0].as_str() {
            "backup" => {
                for (src, dst) in [(CFG, "Package/proxy-agent.json"), (EBPF, "Package/ebpf_cgroup.o"), (EXE, "Package/azure-proxy-agent"), (UNIT, "azure-proxy-agent.service")] {
                    if let Some(d) = model_sys[src].clone() {
                        model_bak.insert(dst.to_string(), Some(d));
                    }
                }
                after_backup = Some(model_sys.clone());
                installed_since_backup = false;
            }
            "install" => {
                let pre = sys_hash(&model_sys);
                for (n, dst) in [("azure-proxy-agent", EXE), ("proxy-agent.json", CFG), ("ebpf_cgroup.o", EBPF)] {
                    if n != missing {
                        model_sys.insert(dst.to_string(), Some(pkg[n].clone()));
                    }
                }
                model_sys.insert(UNIT.to_string(), Some(pkg_unit.clone()));
                expect_journal = Some((pre, sys_hash(&model_sys)));
                installed_since_backup = true;
            }
            "restore" => {
                if has_backup {
                    let pre = sys_hash(&model_sys);
                    for (src, dst) in [("Package/azure-proxy-agent", EXE), ("Package/proxy-agent.json", CFG), ("Package/ebpf_cgroup.o", EBPF), ("azure-proxy-agent.service", UNIT)] {
                        if let Some(d) = model_bak[src].clone() {
                            model_sys.insert(dst.to_string(), Some(d));
                        }
                    }
                    // a backup taken when no service unit was installed holds no unit file: the tool cannot set the
                    // service up again, stops after copying the files and keeps the backup (exit 1)
                    let unit_in_backup = model_bak["azure-proxy-agent.service"].is_some();
                    if unit_in_backup {
                        expect_journal = Some((pre, sys_hash(&model_sys)));
                    }
                    let delete = unit_in_backup && args.get(1).map(|a| a != "false").unwrap_or(true);
                    if delete {
                        for n in bfiles {
                            model_bak.insert(n.to_string(), None);
                        }
                    }
                }
            }
            "uninstall" => {
                model_sys.insert(UNIT.to_string(), None);
                if args.get(1).map(|a| a == "package").unwrap_or(false) {
                    for p in [EXE, CFG, EBPF] {
                        model_sys.insert(p.to_string(), None);
                    }
                }
            }
            "purge" => {
                for n in bfiles {
                    model_bak.insert(n.to_string(), None);
                }
            }
            _ => {}
        }
        // ---- compare
        let actual = system_state();
        if !faulty {
            for p in [EXE, CFG, EBPF, UNIT] {
                if actual[p] != model_sys[p] {
                    violations.push(("system file differs from what the command must leave".into(), format!("{}: {} is {} but must be {}", what, p, sha(&actual[p]), sha(&model_sys[p]))));
                }
            }
            for n in bfiles {
                let a = read(&bk(n));
                if a != model_bak[n] {
                    violations.push(("backup folder differs from what the command must leave".into(), format!("{}: Backup/{} is {} but must be {}", what, n, sha(&a), sha(&model_bak[n]))));
                }
            }
            // round trip: backup -> install -> restore reinstates the files exactly
            if args[0] == "restore" && has_backup && installed_since_backup {
                if let Some(ab) = &after_backup {
                    for p in [EXE, CFG, EBPF, UNIT] {
                        if ab[p].is_some() && actual[p] != ab[p] {
                            violations.push(("restore after backup and install does not reinstate the file byte for byte".into(), format!("{}: {} is {} but was {} when backed up", what, p, sha(&actual[p]), sha(&ab[p]))));
                        }
                    }
                }
            }
            // ordering: at the stop invocation nothing has been replaced yet, at the start invocation everything has
            if let Some((pre, post)) = &expect_journal {
                let stop = jlines.iter().find(|l| l.starts_with("stop "));
                let start = jlines.iter().find(|l| l.starts_with("start "));
                match (stop, start) {
                    (Some(s), Some(t)) => {
                        let hs = s.split(" | ").nth(1).unwrap_or("");
                        let ht = t.split(" | ").nth(1).unwrap_or("");
                        if hs != pre {
                            violations.push(("a file was replaced before the service was stopped".into(), format!("{}: at 'stop' the four files hash {} but before the command they hashed {}", what, hs, pre)));
                        }
                        if ht != post {
                            violations.push(("the service was started before all files were in place".into(), format!("{}: at 'start' the four files hash {} but the final state hashes {}", what, ht, post)));
                        }
                        let si = jlines.iter().position(|l| l.starts_with("stop ")).unwrap_or(0);
                        let ti = jlines.iter().position(|l| l.starts_with("start ")).unwrap_or(0);
                        if si > ti {
                            violations.push(("service started before it was stopped".into(), what.clone()));
                        }
                    }
                    _ => violations.push(("service not stopped and started around the file replacement".into(), format!("{}: journal {:?}", what, jlines))),
                }
            } else if args[0] == "restore" && !has_backup {
                if !jlines.is_empty() {
                    violations.push(("restore without a backup invoked the service manager".into(), format!("{}: {:?}", what, jlines)));
                }
                if actual != sys_before {
                    violations.push(("restore without a backup changed a system file".into(), what.clone()));
                }
            }
        } else {
            // under injected failures only the containment half is asserted; resynchronise the model
            model_sys = actual.clone();
            for n in bfiles {
                model_bak.insert(n.to_string(), read(&bk(n)));
            }
        }
        // containment: nothing outside the four locations, the backup folder and the tool's own log
        let upper_after = upper_state();
        let mut ks: Vec<&String> = upper_before.keys().chain(upper_after.keys()).collect();
        ks.sort();
        ks.dedup();
        for p in ks {
            if upper_before.get(p) != upper_after.get(p) && !ALLOWED.contains(&p.as_str()) {
                violations.push(("a path outside the agent's locations was created, changed or removed".into(), format!("{}: {}", what, p)));
            }
        }
        let mut after_setup = Tree::new();
        dir_state(&sdir, &mut after_setup);
        let mut keys: Vec<&String> = before_setup.keys().chain(after_setup.keys()).collect();
        keys.sort();
        keys.dedup();
        for k in keys {
            let rel = &k[sdir.len()..];
            if rel.starts_with("/ProxyAgent/Backup") || rel.starts_with("/setup.log") {
                continue;
            }
            if before_setup.get(k) != after_setup.get(k) {
                violations.push(("the tool changed a file of its own folder other than the backup and its log".into(), format!("{}: {}", what, rel)));
            }
        }
        let _ = stdout;
        if violations.len() > 6 {
            break;
        }
    }
    let _ = start_of_history;
    let viol_json: Vec<Value> = violations.iter().map(|(c, d)| json!({"property": "C17", "class": c, "detail": d, "seq": 0})).collect();
    let digest = format!("{:016x}", violations.len() as u64 ^ executed.wrapping_mul(0x9E3779B97F4A7C15) ^ seed);
    let out = json!({
        "scenario": "setup:C17", "seed": seed, "verdict": if viol_json.is_empty() { "ok" } else { "violation" }, "violations": viol_json,
        "digest": format!("{:016x}", system_state().values().fold(0u64, |a, v| a.rotate_left(7) ^ v.as_ref().map(|d| d.len() as u64 + 1).unwrap_or(0))), "sched_digest": digest, "events": executed, "sim_ms": 0,
        "counters": {}, "stats": {"c17.commands": executed, "c17.histories_with_round_trip": if plan["cmds"].to_string().contains("backup") && plan["cmds"].to_string().contains("install") && plan["cmds"].to_string().contains("restore") { 1 } else { 0 }, "c17.faulty_histories": if faulty { 1 } else { 0 }},
        "notes": notes, "panics": [], "progress": {"commands": executed}, "plan": plan,
        "samples": [{"history": plan["cmds"], "installed": plan["installed"], "backup_present": plan["backup_present"], "fault": plan["fault"]}], "tail": [], "wall_ms": t0.elapsed().as_millis() as u64,
    });
    let bytes = serde_json::to_vec(&out).unwrap();
    match std::env::var("VERIF_OUT") {
        Ok(p) => std::fs::write(p, bytes).expect("write result"),
        Err(_) => println!("{}", String::from_utf8_lossy(&bytes)),
    }
}

/// first 16 hex chars of sha256, as the stand-in systemctl prints them
fn sha16(data: &Option<Vec<u8>>) -> String {
    match data {
        None => "-".into(),
        Some(d) => {
            let out = std::process::Command::new("/usr/bin/sha256sum").stdin(std::process::Stdio::piped()).stdout(std::process::Stdio::piped()).spawn().and_then(|mut c| {
                use std::io::Write;
                c.stdin.take().unwrap().write_all(d)?;
                c.wait_with_output()
            });
            match out {
                Ok(o) => String::from_utf8_lossy(&o.stdout).chars().take(16).collect(),
                Err(_) => "?".into(),
            }
        }
    }
}
