//! Plan generators: every choice is drawn from the `work` / `host` streams of the run seed, so a plan
//! is a pure function of (scenario, seed, tier). Swarm style: sizes, workload mix, enabled fault kinds
//! and scheduling profile are re-drawn per run.

use serde_json::{json, Value};
use vrt::Rng;

pub const USERS: [(&str, u32, &[&str]); 4] = [("root", 0, &["root", "wheel"]), ("alice", 1001, &["alice", "devs"]), ("bob", 1002, &["bob", "devs", "ops"]), ("svc-azure", 1003, &["svc"])];
pub const EXES: [&str; 6] = ["/usr/bin/curl", "/usr/bin/python3", "/usr/sbin/waagent", "/opt/app/bin/worker", "/usr/bin/wget", "/bin/sh"];

pub fn users_json() -> Value {
    Value::Array(USERS.iter().map(|(n, uid, gs)| json!({"uid": uid, "gid": uid, "name": n, "groups": gs})).collect())
}

pub fn gen_procs(r: &mut Rng, n: usize, force_root_first: bool) -> Value {
    let mut v = Vec::new();
    for i in 0..n {
        let u = if force_root_first && i == 0 { 0 } else { r.below(USERS.len() as u64) as usize };
        let exe = *r.pick(&EXES);
        let known = !r.chance(1, 12);
        v.push(json!({
            "pid": 1000 + i as u64 * 7 + r.below(5), "tid": 0, "uid": USERS[u].1, "gid": USERS[u].1,
            "exe": exe, "cmd": [exe.rsplit('/').next().unwrap_or(""), "--flag", format!("arg{}", r.below(100))], "known": known
        }));
    }
    for p in v.iter_mut() {
        let pid = p["pid"].clone();
        p["tid"] = pid;
    }
    Value::Array(v)
}

/// a process that changes its credentials while it runs (setuid after start-up, or a recycled pid): a second entry with
/// the same pid, thread, executable and command line but another user. Connections made "as" either entry come from
/// the same pid; what the kernel records for each connection is the credential at that connect.
pub fn add_credential_change(r: &mut Rng, procs: &mut Value) {
    let a = procs.as_array_mut().unwrap();
    let k = r.below(a.len() as u64) as usize;
    let mut alias = a[k].clone();
    let old_uid = alias["uid"].as_u64().unwrap_or(0) as u32;
    let new_uid = if old_uid == 0 { USERS[1 + r.below(USERS.len() as u64 - 1) as usize].1 } else if r.chance(1, 2) { 0 } else { USERS[r.below(USERS.len() as u64) as usize].1 };
    if new_uid == old_uid {
        return;
    }
    alias["uid"] = json!(new_uid);
    alias["gid"] = json!(new_uid);
    alias["alias_of"] = json!(k);
    a.push(alias);
}

/// scheduling / network swarm profile
pub fn gen_knobs(r: &mut Rng, heavy_bias: bool) -> Value {
    let prof = r.below(if heavy_bias { 4 } else { 6 });
    let mut k = json!({});
    match prof {
        0 => {
            k["sched.delay_ppm"] = json!(200_000);
            k["sched.hop_ppm"] = json!(100_000);
            k["sched.delay_max_ms"] = json!(1 + r.below(4));
        }
        1 => {
            // PCT-like: one or two victim tasks
            let nt = 12 + r.below(60);
            k["sched.victim_a"] = json!(r.below(nt));
            if r.chance(1, 2) {
                k["sched.victim_b"] = json!(r.below(nt));
            }
            k["sched.victim_ms"] = json!(2 + r.below(30));
        }
        2 => {
            k["sched.hop_ppm"] = json!(150_000);
            k["sched.hop_max"] = json!(1 + r.below(4));
        }
        3 => {
            k["sched.delay_ppm"] = json!(10_000 + r.below(40_000));
            k["sched.delay_max_ms"] = json!(1 + r.below(3));
            k["sched.hop_ppm"] = json!(10_000);
        }
        4 => {
            k["sched.delay_ppm"] = json!(10_000);
        }
        _ => {} // pure FIFO
    }
    k["sched.profile"] = json!(prof);
    k["net.frag_ppm"] = json!(*r.pick(&[0u64, 100_000, 400_000, 900_000]));
    k["net.lat_max_ms"] = json!(*r.pick(&[0u64, 1, 2, 5]));
    k["net.short_write_ppm"] = json!(*r.pick(&[0u64, 0, 50_000, 300_000]));
    k["net.short_read_ppm"] = json!(*r.pick(&[0u64, 0, 50_000, 300_000]));
    k["net.pending_ppm"] = json!(*r.pick(&[0u64, 0, 20_000, 100_000]));
    k["net.connect_lat_max_ms"] = json!(*r.pick(&[0u64, 1, 3]));
    k
}

// ------------------------------------------------------------------------------------------------
// rule documents

pub const RULE_PATHS: [&str; 8] = ["/metadata/instance", "/metadata/identity", "/metadata", "/machine", "/Machine/Config", "/vmSettings", "/", "/metadata/identity/oauth2/token"];

pub struct RuleOpts {
    pub allow_upper_paths: bool,
    pub allow_dup_names: bool,
    pub allow_missing_sections: bool,
    pub allow_dangling: bool,
}

pub fn gen_identity(r: &mut Rng, name: &str, procs: &Value) -> Value {
    let mut i = json!({"name": name});
    // draw attributes from a real process so that matches occur often
    let ps = procs.as_array().unwrap();
    let p = &ps[r.below(ps.len() as u64) as usize];
    let uid = p["uid"].as_u64().unwrap_or(0) as u32;
    let u = USERS.iter().find(|u| u.1 == uid).unwrap();
    // (now and then a name that differs from a real one only in letter case: account names are compared exactly)
    let case_variant = |r: &mut Rng, s: &str| -> String {
        let mut v = flip_case(r, s);
        if v == s {
            v = s.to_uppercase();
        }
        v
    };
    if r.chance(1, 2) {
        i["userName"] = json!(if r.chance(1, 8) { "nobody".to_string() } else if r.chance(1, 6) { case_variant(r, u.0) } else { u.0.to_string() });
    }
    if r.chance(1, 3) {
        let g = *r.pick(u.2);
        i["groupName"] = json!(if r.chance(1, 8) { "nogroup".to_string() } else if r.chance(1, 6) { case_variant(r, g) } else { g.to_string() });
    }
    let exe = p["exe"].as_str().unwrap_or("");
    if r.chance(1, 3) {
        i["exePath"] = json!(if r.chance(1, 8) { "/no/such" } else { exe });
    }
    if r.chance(1, 3) {
        i["processName"] = json!(if r.chance(1, 8) { "nosuch" } else { exe.rsplit('/').next().unwrap_or("") });
    }
    i
}

fn flip_case(r: &mut Rng, s: &str) -> String {
    s.chars().map(|c| if c.is_ascii_alphabetic() && r.chance(1, 3) { if c.is_ascii_lowercase() { c.to_ascii_uppercase() } else { c.to_ascii_lowercase() } } else { c }).collect()
}

pub fn gen_item(r: &mut Rng, id: &str, procs: &Value, o: &RuleOpts, mode: &str, default_access: &str) -> Value {
    let np = r.below(5) as usize;
    let ni = r.below(4) as usize;
    let mut privileges = Vec::new();
    for k in 0..np {
        let mut path = r.pick(&RULE_PATHS).to_string();
        if !o.allow_upper_paths {
            path = path.to_lowercase();
        } else if r.chance(1, 2) {
            path = flip_case(r, &path);
        }
        let name = if o.allow_dup_names && k > 0 && r.chance(1, 3) { "p0".to_string() } else { format!("p{}", k) };
        let mut p = json!({"name": name, "path": path});
        if r.chance(1, 3) {
            let mut q = serde_json::Map::new();
            for _ in 0..1 + r.below(2) {
                let key = *r.pick(&["api-version", "comp", "Type", "resource"]);
                let val = *r.pick(&["2018-02-01", "goalstate", "Config", "https://vault.azure.net", ""]);
                q.insert(key.to_string(), json!(val));
            }
            p["queryParameters"] = Value::Object(q);
        }
        privileges.push(p);
    }
    let mut identities = Vec::new();
    for k in 0..ni {
        let name = if o.allow_dup_names && k > 0 && r.chance(1, 3) { "i0".to_string() } else { format!("i{}", k) };
        identities.push(gen_identity(r, &name, procs));
    }
    let nr = r.below(3) as usize + if np > 0 { 1 } else { 0 };
    let mut roles = Vec::new();
    for k in 0..nr {
        let mut ps = Vec::new();
        for j in 0..np {
            if r.chance(1, 2) {
                ps.push(json!(format!("p{}", j)));
            }
        }
        if o.allow_dangling && r.chance(1, 4) {
            ps.push(json!("p-missing"));
        }
        roles.push(json!({"name": format!("r{}", k), "privileges": ps}));
    }
    let mut assignments = Vec::new();
    for k in 0..nr {
        if r.chance(3, 4) {
            let mut is = Vec::new();
            for j in 0..ni {
                if r.chance(1, 2) {
                    is.push(json!(format!("i{}", j)));
                }
            }
            if o.allow_dangling && r.chance(1, 4) {
                is.push(json!("i-missing"));
            }
            assignments.push(json!({"role": format!("r{}", k), "identities": is}));
        }
    }
    if o.allow_dangling && r.chance(1, 4) {
        assignments.push(json!({"role": "r-missing", "identities": ["i0"]}));
    }
    let mut rules = json!({"privileges": privileges, "roles": roles, "identities": identities, "roleAssignments": assignments});
    if o.allow_missing_sections && r.chance(1, 5) {
        let sect = *r.pick(&["privileges", "roles", "identities", "roleAssignments"]);
        rules.as_object_mut().unwrap().remove(sect);
    }
    let mut item = json!({"defaultAccess": default_access, "mode": mode, "id": id, "rules": rules});
    if o.allow_missing_sections && r.chance(1, 10) {
        item.as_object_mut().unwrap().remove("rules");
    }
    item
}

/// an item that grants everything under "/" to exactly the given process (by all four attributes)
pub fn grant_all_item(id: &str, mode: &str, default_access: &str, who: Option<&Value>) -> Value {
    let mut ident = json!({"name": "me"});
    if let Some(p) = who {
        let uid = p["uid"].as_u64().unwrap_or(0) as u32;
        let u = USERS.iter().find(|u| u.1 == uid).unwrap();
        let exe = p["exe"].as_str().unwrap_or("");
        ident["userName"] = json!(u.0);
        ident["groupName"] = json!(u.2[0]);
        ident["exePath"] = json!(exe);
        ident["processName"] = json!(exe.rsplit('/').next().unwrap_or(""));
    }
    json!({"defaultAccess": default_access, "mode": mode, "id": id, "rules": {
        "privileges": [{"name": "all", "path": "/"}],
        "roles": [{"name": "r", "privileges": ["all"]}],
        "identities": [ident],
        "roleAssignments": [{"role": "r", "identities": ["me"]}]}})
}

pub fn doc_v1(state: &str) -> Value {
    json!({"authorizationScheme": "Azure-HMAC-SHA256", "keyDeliveryMethod": "http", "keyGuid": null, "requiredClaimsHeaderPairs": ["isRoot"], "secureChannelState": state, "version": "1.0"})
}
pub fn doc_v2(enabled: bool, rules: Option<Value>) -> Value {
    let mut d = json!({"authorizationScheme": "Azure-HMAC-SHA256", "keyDeliveryMethod": "http", "keyGuid": null, "requiredClaimsHeaderPairs": ["isRoot"], "secureChannelEnabled": enabled, "version": "2.0"});
    if let Some(r) = rules {
        d["authorizationRules"] = r;
    }
    d
}

pub fn gen_doc(r: &mut Rng, procs: &Value, o: &RuleOpts, serial: u64) -> Value {
    if r.chance(1, 5) {
        return doc_v1(*r.pick(&["disabled", "wireserver", "wireserverandimds", "WireServer"]));
    }
    let enabled = !r.chance(1, 6);
    let mut rules = serde_json::Map::new();
    for ep in ["imds", "wireserver", "hostga"] {
        if r.chance(4, 5) {
            let mode = *r.pick(&["enforce", "enforce", "audit", "disabled", "Enforce"]);
            let da = *r.pick(&["allow", "deny", "Deny"]);
            let item = if r.chance(1, 6) { grant_all_item(&format!("{}-{}", ep, serial), mode, da, Some(&procs[r.below(procs.as_array().unwrap().len() as u64) as usize])) } else { gen_item(r, &format!("{}-{}", ep, serial), procs, o, mode, da) };
            rules.insert(ep.to_string(), item);
        }
    }
    doc_v2(enabled, if r.chance(1, 10) { None } else { Some(Value::Object(rules)) })
}

// ------------------------------------------------------------------------------------------------
// requests

pub const METHODS: [&str; 7] = ["GET", "POST", "PUT", "DELETE", "PATCH", "HEAD", "OPTIONS"];
pub const PATHS: [&str; 19] = [
    "/metadata/instance", "/metadata/identity/oauth2/token", "/machine", "/machine/", "/vmAgentLog", "/Metadata/Instance", "/", "/metadata/instance/compute/name",
    "/machine/..", "/a/../b", "/..", "/vmSettings", "/machine/374188df/x", "/metadata/scheduledevents",
    // '..' glued to other characters inside a segment is still a path containing '..'
    "/machine/..%2Fsecret", "/metadata/v1..2/instance", "/..;/metadata/instance", "/metadata/instance..", "/machine/...",
];
pub const QUERIES: [&str; 16] = [
    "a=1&a1=2", "api=v&api-version=2018-02-01", "comp=x&comptype=a", "k&k-2=b&k=%20",
    "", "api-version=2018-02-01", "comp=goalstate", "comp=telemetrydata", "api-version=2018-02-01&format=json", "a=bc&ab=c", "x=1&x=1", "x=2&x=1&y", "keyOnly&comp=config&COMP=Again", "Api-Version=2018-02-01",
    "resource=https%3a%2f%2fvault.azure.net&api-version=2018-02-01", "type=Config&comp=config&..=1",
];

pub fn gen_headers_dup(r: &mut Rng, host: &str) -> Vec<Value> {
    // header names may be repeated (several Accept / Cookie / Via lines): each line is a client header
    let mut hs = gen_headers(r, host);
    for _ in 0..r.below(3) {
        let n = *r.pick(&["Accept", "X-Custom-Header", "Cookie", "Via", "accept", "X-CUSTOM-HEADER"]);
        for k in 0..1 + r.below(3) {
            hs.push(json!([n, format!("dup{}-{}", k, r.below(1000))]));
        }
    }
    r.shuffle(&mut hs);
    hs
}

pub fn gen_headers(r: &mut Rng, host: &str) -> Vec<Value> {
    let mut hs = vec![json!(["Host", host])];
    if r.chance(2, 3) {
        hs.push(json!([*r.pick(&["Metadata", "metadata", "METADATA"]), *r.pick(&["true", "True", " true ", "true\t"])]));
    }
    let extra = r.below(4);
    for i in 0..extra {
        let n = *r.pick(&["x-ms-version", "User-Agent", "Accept", "X-Custom-Header", "x-ms-client-request-id", "Cache-Control", "accept-encoding"]);
        if hs.iter().any(|h| h[0].as_str().unwrap().eq_ignore_ascii_case(n)) {
            continue;
        }
        let v = match r.below(5) {
            0 => "2012-11-30".to_string(),
            1 => format!("  padded value {} ", i),
            2 => "curl/7.88.1".to_string(),
            3 => "*/*;q=0.8, text/html".to_string(),
            _ => format!("v{}", r.below(1000)),
        };
        hs.push(json!([n, v]));
    }
    r.shuffle(&mut hs);
    hs
}

pub fn gen_resp(r: &mut Rng, body_max: u64) -> Value {
    let status = *r.pick(&[200u64, 200, 200, 201, 204, 304, 400, 404, 410, 429, 500, 503]);
    let len = match r.below(6) {
        0 => 0,
        1 => 1,
        2 => r.below(200),
        3 => r.below(body_max.min(5000) + 1),
        _ => r.below(body_max + 1),
    };
    let mut hs = vec![json!(["Content-Type", *r.pick(&["application/json; charset=utf-8", "text/xml", "application/octet-stream"])])];
    for i in 0..r.below(3) {
        hs.push(json!([format!("X-Resp-{}", i), format!("rv{}", r.below(999))]));
    }
    if r.chance(1, 4) {
        hs.push(json!(["ETag", format!("\"{}\"", r.below(1 << 30))]));
    }
    let mut v = json!({"status": status, "headers": hs, "body": {"len": len, "seed": r.next() >> 8, "ascii": r.chance(1, 2)}});
    if r.chance(1, 3) {
        v["chunks"] = json!((0..1 + r.below(4)).map(|_| 1 + r.below(3000)).collect::<Vec<_>>());
    } else if r.chance(1, 8) {
        v["close_delimited"] = json!(true);
    }
    v
}

pub struct ReqOpts<'a> {
    pub host: &'a str,
    pub body_max: u64,
    pub spoof: bool,
    pub with_resp: bool,
    pub traversal_ok: bool,
}

pub fn gen_req(r: &mut Rng, tok: &str, o: &ReqOpts) -> Value {
    let method = *r.pick(&METHODS);
    let mut path = r.pick(&PATHS).to_string();
    if !o.traversal_ok && path.contains("..") {
        path = "/metadata/instance".to_string();
    }
    let q = *r.pick(&QUERIES);
    let mut target = if q.is_empty() { path } else { format!("{}?{}", path, q) };
    let mut method = method;
    // the two signature-exempt uploads (and near misses of them) are a fixed share of every workload
    if r.chance(1, 8) {
        let (m, t) = match r.below(6) {
            0 | 1 => ("PUT", flip_case(r, "/vmAgentLog")),
            2 | 3 => ("POST", flip_case(r, "/machine/?comp=telemetrydata")),
            4 => ("POST", "/vmAgentLog".to_string()),
            _ => ("PUT", "/machine/?comp=telemetrydata".to_string()),
        };
        method = m;
        target = t;
    }
    let mut hs = if o.with_resp && r.chance(1, 3) { gen_headers_dup(r, o.host) } else { gen_headers(r, o.host) };
    if o.spoof {
        for _ in 0..r.below(4) {
            let base = *r.pick(&["x-ms-azure-host-claims", "x-ms-azure-host-date", "x-ms-azure-host-authorization"]);
            let n = flip_case(r, base);
            let v = match n.to_ascii_lowercase().as_str() {
                "x-ms-azure-host-claims" => *r.pick(&["{ \"isRoot\": \"true\"}", "{ \"isRoot\": \"false\"}", "{\"isRoot\":true}", "garbage"]),
                "x-ms-azure-host-date" => *r.pick(&["Thu, 01 Jan 1970 00:00:00 GMT", "Fri, 15 Jan 2027 08:00:00 GMT", "yesterday"]),
                _ => *r.pick(&["Azure-HMAC-SHA256 00000000-0000-0000-0000-000000000000 deadbeef", "value", "Azure-HMAC-SHA256 x y"]),
            };
            hs.push(json!([n, v]));
        }
        r.shuffle(&mut hs);
    }
    let mut v = json!({"method": method, "target": target, "headers": hs, "tok": tok});
    let wants_body = matches!(method, "POST" | "PUT" | "PATCH") || r.chance(1, 10);
    if wants_body && method != "HEAD" {
        let len = match r.below(5) {
            0 => 0,
            1 => 1 + r.below(64),
            _ => r.below(o.body_max + 1),
        };
        v["body"] = json!({"len": len, "seed": r.next() >> 8, "ascii": r.chance(1, 2)});
        if r.chance(1, 3) {
            v["chunks"] = json!((0..1 + r.below(4)).map(|_| 1 + r.below(4000)).collect::<Vec<_>>());
        }
        if len > 0 && r.chance(1, 5) {
            v["slow"] = gen_slow(r);
        }
    }
    if o.with_resp && r.chance(3, 4) {
        v["resp"] = gen_resp(r, 20_000);
    }
    v
}

/// a slow client: the body follows the head after a pause, and arrives in two halves with another pause in between
/// (from a scheduling hiccup to longer than any timeout the proxy could have; wall-clock seconds tick meanwhile)
pub fn gen_slow(r: &mut Rng) -> Value {
    json!({"after_head_ms": *r.pick(&[0u64, 30, 150, 1100, 2500, 10_500, 31_000]), "mid_body_ms": *r.pick(&[0u64, 0, 150, 1100, 10_500])})
}

pub fn host_name_of(dst: &str) -> &'static str {
    match dst {
        "wire" => "168.63.129.16",
        "ga" => "168.63.129.16:32526",
        "imds" => "169.254.169.254",
        "other" | "other_redirected" => "10.9.8.7:8080",
        _ => "127.0.0.1:3080",
    }
}

/// The request-path family. `prop` selects the mix.
pub fn gen_proxy(seed: u64, prop: &str, tier: &str) -> Value {
    let mut r = Rng::derive(seed, "work");
    let nprocs = 2 + r.below(4) as usize;
    let mut procs = gen_procs(&mut r, nprocs, true);
    if matches!(prop, "C01" | "C03" | "C05" | "C07") && r.chance(1, 3) {
        add_credential_change(&mut r, &mut procs);
    }
    let nprocs = procs.as_array().unwrap().len();
    let dup_names = prop == "C02" && r.chance(1, 6);
    // rule-document corner cases (missing sections, upper-case paths, duplicate names) belong to C02's check
    let o = RuleOpts { allow_upper_paths: prop == "C02", allow_dup_names: dup_names, allow_missing_sections: prop == "C02", allow_dangling: true };
    let mut steps = Vec::new();
    let nphases = 1 + r.below(if tier == "thorough" { 4 } else { 3 });
    let mut tokn = 0u64;
    let spoof = prop == "C05";
    let body_max: u64 = match prop {
        "C14" | "C04" => 100 * 1024,
        _ => 4096,
    };
    let conc_transition = matches!(prop, "C01" | "C11") && r.chance(1, 5);
    // swarm: a third of the runs meet a misbehaving upstream (host-level and connection-level faults placed inside
    // the client batches), some a jumping wall clock, some a disk that refuses log writes
    let upstream_faults = r.chance(1, 3);
    let clock_jumps = r.chance(1, 6);
    let rotate_under_load = matches!(prop, "C04" | "C05" | "C14") && r.chance(1, 3);
    for ph in 0..nphases {
        let doc = match prop {
            // properties that need a latched key most of the time
            "C04" | "C05" | "C14" | "C15" => {
                if r.chance(4, 5) {
                    let mut d = gen_doc(&mut r, &procs, &o, ph);
                    if d["version"] == "2.0" {
                        d["secureChannelEnabled"] = json!(true);
                    }
                    d
                } else {
                    gen_doc(&mut r, &procs, &o, ph)
                }
            }
            _ => gen_doc(&mut r, &procs, &o, ph),
        };
        let key_faults = prop == "C01" && !conc_transition && r.chance(1, 4);
        let mut key_faults_persistent = false;
        if key_faults {
            key_faults_persistent = gen_key_negotiation_faults(&mut r, &mut steps);
        }
        steps.push(json!({"t": "doc", "doc": doc}));
        if !(conc_transition && ph > 0) {
            steps.push(json!({"t": "wait_polls", "n": 2, "max_s": 200}));
        }
        if key_faults && !key_faults_persistent {
            // the agent got through in the meantime
            steps.push(json!({"t": "drain_faults", "max_s": 120}));
            steps.push(json!({"t": "wait_polls", "n": 1, "max_s": 200}));
        }
        let nconn = 1 + r.below(if tier == "thorough" { 6 } else { 4 });
        let mut conns = Vec::new();
        for _ in 0..nconn {
            let p = r.below(nprocs as u64);
            let dst = match prop {
                "C03" => *r.pick(&["wire", "ga", "wire", "ga", "imds", "self"]),
                "C05" | "C04" | "C14" | "C15" => *r.pick(&["wire", "ga", "imds", "imds", "other_redirected"]),
                _ => *r.pick(&["wire", "ga", "imds", "imds", "direct", "self", "other", "other_redirected"]),
            };
            // (C01: longer keep-alive conversations, so that one connection carries requests the policy treats differently)
            let nreq = 1 + r.below(if prop == "C01" { 9 } else { 4 });
            let mut reqs = Vec::new();
            for _ in 0..nreq {
                tokn += 1;
                let ro = ReqOpts { host: host_name_of(dst), body_max, spoof, with_resp: matches!(prop, "C14"), traversal_ok: matches!(prop, "C01" | "C03") };
                reqs.push(gen_req(&mut r, &format!("t{}", tokn), &ro));
            }
            conns.push(json!({"proc": p, "dst": dst, "start_ms": r.below(20), "pipeline": r.chance(1, 4), "gap_ms": r.below(3), "reqs": reqs}));
        }
        if clock_jumps && r.chance(1, 2) {
            steps.push(json!({"t": "clock_jump", "ms": *r.pick(&[-86_400_000i64, -3_600_000, -1000, 1000, 3_600_000, 86_400_000 * 400])}));
        }
        if upstream_faults {
            gen_upstream_faults(&mut r, &mut steps);
            if prop == "C14" {
                // transparency under a dying upstream: answers cut inside their body
                for _ in 0..r.below(3) {
                    steps.push(json!({"t": "host_fault", "kind": "client", "fault": {"f": "cut", "n": 120 + r.below(9000)}}));
                }
            }
        }
        if rotate_under_load && r.chance(1, 2) {
            // the host rotates or withdraws the key while requests (some from slow clients) are in flight
            let mut during = Vec::new();
            let mut t = r.below(800);
            for _ in 0..1 + r.below(3) {
                during.push(json!({"after_ms": t, "do": {"t": "host_latch", "mode": *r.pick(&["new", "rotate_with_file", "new", "none"])}}));
                t += 100 + r.below(6000);
            }
            steps.push(json!({"t": "clients_with", "conns": conns, "during": during}));
        } else {
            steps.push(json!({"t": "clients", "conns": conns}));
        }
        if upstream_faults {
            steps.push(json!({"t": "clear_faults"}));
        }
        if key_faults_persistent {
            steps.push(json!({"t": "clear_faults", "all": true}));
        }
    }
    if prop == "C01" && r.chance(1, 5) {
        return gen_policy_swap_storm(seed, &mut r, prop, tier);
    }
    if prop == "C01" && r.chance(1, 5) {
        return gen_port_scarce(seed, &mut r, procs, tier, prop);
    }
    if prop == "C03" && r.chance(1, 6) {
        return gen_port_scarce(seed, &mut r, procs, tier, prop);
    }
    if prop == "C03" && r.chance(1, 4) {
        return gen_c03_unsettled(seed, &mut r, procs, tier);
    }
    if prop == "C02" {
        return gen_c02(seed, &mut r, procs, o, dup_names, tier);
    }
    if prop == "C07" {
        return gen_c07(seed, &mut r, procs, tier);
    }
    if prop == "C15" {
        return gen_c15(seed, &mut r, procs, tier);
    }
    if prop == "C11" {
        return gen_c11(seed, &mut r, procs, tier);
    }
    let oracles: Vec<&str> = match prop {
        "C01" => vec!["C01", "C03"],
        "C03" => vec!["C03", "C01"],
        "C04" => vec!["C04", "C05", "C10"],
        "C05" => vec!["C05", "C04"],
        "C14" => vec!["C14", "C04", "C05"],
        "C15" => vec!["C15", "C01"],
        x => vec![x],
    };
    let knobs = gen_knobs(&mut r, false);
    let mut disk_faults = Vec::new();
    if r.chance(1, 8) {
        // the log volume refuses a write (full disk, I/O error) somewhere during the run
        disk_faults.push(json!({"op": "write", "path": "/var/log/azure-proxy-agent/", "nth": 1 + r.below(400), "errno": *r.pick(&[28i64, 5]), "short": 0}));
    }
    json!({
        "scenario": format!("proxy:{}", prop), "seed": seed, "family": "proxy", "prop": prop, "disk_faults": disk_faults,
        "knobs": knobs, "procs": procs, "users": users_json(), "steps": steps, "oracles": oracles,
        "config": {"pollKeyStatusIntervalInSeconds": if rotate_under_load { 1 } else { 1 + r.below(15) }}, "settle_ms": 3000,
        "faulty": false, "rotating": rotate_under_load
    })
}

/// Root-only endpoints while the agent has not settled: requests arrive right after start, before the first status poll
/// has completed (the host stalls or fails it), and again right after a provisioning query has reset the key keeper to
/// "unknown". Whatever the agent knows or does not know about the channel, a non-elevated caller never reaches
/// WireServer / HostGAPlugin and nothing recorded for the proxy's own address is relayed.
fn gen_c03_unsettled(seed: u64, r: &mut Rng, procs: Value, tier: &str) -> Value {
    let nprocs = procs.as_array().unwrap().len() as u64;
    let mut steps = Vec::new();
    let mut tokn = 0u64;
    let batch = |r: &mut Rng, tokn: &mut u64| -> Value {
        let mut conns = Vec::new();
        for _ in 0..2 + r.below(4) {
            let dst = *r.pick(&["wire", "ga", "wire", "ga", "self", "imds"]);
            let mut reqs = Vec::new();
            for _ in 0..1 + r.below(3) {
                *tokn += 1;
                let mut q = json!({"method": *r.pick(&["GET", "GET", "POST"]), "target": format!("{}?n={}", r.pick(&["/machine", "/vmSettings", "/metadata/instance"]), tokn), "headers": [["Host", host_name_of(dst)], ["Metadata", "true"]], "tok": format!("t{}", tokn)});
                if q["method"] == "POST" {
                    q["body"] = json!({"len": 1 + r.below(500), "seed": r.next() >> 8, "ascii": true});
                }
                reqs.push(q);
            }
            conns.push(json!({"proc": r.below(nprocs), "dst": dst, "start_ms": r.below(400), "pipeline": false, "gap_ms": r.below(300), "reqs": reqs}));
        }
        json!({"t": "clients", "conns": conns})
    };
    let slow_status = |r: &mut Rng, steps: &mut Vec<Value>| {
        for _ in 0..1 + r.below(4) {
            let f = match r.below(3) {
                0 => json!({"f": "stall", "ms": 1000 + r.below(20_000)}),
                1 => json!({"f": "status", "status": 503}),
                _ => json!({"f": "reset_before"}),
            };
            steps.push(json!({"t": "host_fault", "kind": *r.pick(&["status", "status", "acquire", "attest"]), "fault": f}));
        }
    };
    // right after start
    slow_status(r, &mut steps);
    steps.push(batch(r, &mut tokn));
    steps.push(json!({"t": "drain_faults", "max_s": 120}));
    steps.push(json!({"t": "wait_polls", "n": 2, "max_s": 300}));
    // after a reset: the channel is reported disabled, a provisioning query with the notify header arrives
    let rounds = 1 + r.below(if tier == "thorough" { 4 } else { 2 });
    for k in 0..rounds {
        steps.push(json!({"t": "doc", "doc": if r.chance(2, 3) { doc_v1("disabled") } else { doc_v2(false, Some(json!({}))) }}));
        steps.push(json!({"t": "wait_polls", "n": 2, "max_s": 300}));
        slow_status(r, &mut steps);
        steps.push(json!({"t": "clients", "conns": [{"proc": 0, "dst": "direct", "start_ms": 0, "reqs": [{"method": "GET", "target": "/provision", "headers": [["Host", "127.0.0.1:3080"], ["Metadata", "true"], ["x-ms-azure-time_tick", "99999999999999999999999999"], ["x-ms-azure-notify", "true"]], "tok": format!("pv{}", k)}]}]}));
        steps.push(batch(r, &mut tokn));
        steps.push(json!({"t": "drain_faults", "max_s": 120}));
    }
    let knobs = gen_knobs(r, false);
    json!({
        "scenario": "proxy:C03", "seed": seed, "family": "proxy", "prop": "C03", "variant": "unsettled",
        "knobs": knobs, "procs": procs, "users": users_json(), "steps": steps, "oracles": ["C03"],
        "initial_doc": if r.chance(1, 2) { doc_v1("wireserver") } else { doc_v1("disabled") },
        "config": {"pollKeyStatusIntervalInSeconds": 1 + r.below(10)}, "settle_ms": 3000, "faulty": false
    })
}

/// Few ephemeral ports: source ports are reused at once. Attributed connections end in every way a connection can end
/// (orderly, reset or closed in the middle of a request, garbage instead of a request, idle keep-alive dropped) and direct
/// connections to the listener follow on the same ports: whatever the earlier connection left behind must not attribute
/// the later one.
fn gen_port_scarce(seed: u64, r: &mut Rng, procs: Value, tier: &str, prop: &str) -> Value {
    let nprocs = procs.as_array().unwrap().len() as u64;
    let nports = 1 + r.below(3);
    let mut steps = Vec::new();
    let doc = if r.chance(1, 2) { doc_v1("wireserver") } else { doc_v2(true, Some(json!({"imds": grant_all_item("imds-0", *r.pick(&["audit", "enforce"]), "allow", None), "wireserver": grant_all_item("ws-0", "audit", "allow", None)}))) };
    steps.push(json!({"t": "doc", "doc": doc}));
    steps.push(json!({"t": "wait_polls", "n": 2, "max_s": 200}));
    let mut tokn = 0u64;
    let rounds = 3 + r.below(if tier == "thorough" { 10 } else { 6 });
    for _ in 0..rounds {
        let mut conns = Vec::new();
        // one connection at a time per port, so that reuse is sequential and every connect finds a free port
        let dst = *r.pick(&["imds", "wire", "imds", "direct", "direct"]);
        let p = if dst == "wire" { 0 } else { r.below(nprocs) };
        tokn += 1;
        let target = format!("{}?n={}", r.pick(&["/metadata/instance", "/machine", "/metadata/identity/oauth2/token"]), tokn);
        let mut req = json!({"method": *r.pick(&["GET", "POST"]), "target": target, "headers": [["Host", host_name_of(dst)], ["Metadata", "true"]], "tok": format!("t{}", tokn)});
        if req["method"] == "POST" {
            req["body"] = json!({"len": 1 + r.below(2000), "seed": r.next() >> 8, "ascii": true});
        }
        let mut c = json!({"proc": p, "dst": dst, "start_ms": 0, "pipeline": false, "gap_ms": 0, "reqs": [req]});
        if dst != "direct" {
            match r.below(6) {
                0 => c["close"] = json!(format!("reset_after_send:{}:{}", *r.pick(&[0u64, 1, 5, 40]), r.below(30))),
                1 => c["close"] = json!(format!("fin_after_send:{}:{}", *r.pick(&[0u64, 1, 5, 40]), r.below(30))),
                2 => {
                    // a request that is never completed: the head promises a body that does not come
                    c["reqs"][0]["method"] = json!("POST");
                    c["reqs"][0]["headers"] = json!([["Host", host_name_of(dst)], ["Content-Length", "500"]]);
                    c["reqs"][0]["declared_only"] = json!(true);
                    c["reqs"][0]["body"] = Value::Null;
                    c["close"] = json!(format!("reset_after_send:{}:0", *r.pick(&[5u64, 50, 400])));
                }
                3 => {
                    // not HTTP at all
                    c["reqs"][0]["method"] = json!("\u{1}\u{2}GARBAGE");
                }
                _ => {}
            }
        }
        conns.push(c);
        // now and then the endpoint is unreachable when the proxy opens its upstream connection for this client
        let faulted = dst != "direct" && r.chance(1, 4);
        if faulted {
            steps.push(json!({"t": "net_fault", "dst": dst, "agent": true, "kind": {"f": "refuse"}}));
        }
        steps.push(json!({"t": "clients", "conns": conns}));
        if faulted {
            steps.push(json!({"t": "clear_faults"}));
        }
        if r.chance(1, 3) {
            steps.push(json!({"t": "sleep", "ms": *r.pick(&[1u64, 20, 300])}));
        }
    }
    steps.push(json!({"t": "sleep", "ms": 2000}));
    let mut knobs = gen_knobs(r, true);
    knobs["net.connect_lat_max_ms"] = json!(0);
    json!({
        "scenario": format!("proxy:{}", prop), "seed": seed, "family": "proxy", "prop": prop, "variant": "port_scarce", "ports": [40000, nports],
        "knobs": knobs, "procs": procs, "users": users_json(), "steps": steps, "oracles": if prop == "C03" { vec!["C03", "C01"] } else { vec!["C01", "C03"] },
        "config": {"pollKeyStatusIntervalInSeconds": 15}, "settle_ms": 3000, "faulty": false
    })
}

/// Policy replaced under load: the host swaps between rule documents that ALL deny the callers (only the rule ids
/// and irrelevant details differ) while streams of requests run across the key keeper's polls, and the key keeper is
/// the slow task of the run, so that whatever it does in several steps (record the new rule id, store the new rules,
/// publish modes) is stretched over many request arrivals. Every request must be refused by every document.
fn gen_policy_swap_storm(seed: u64, r: &mut Rng, prop: &str, tier: &str) -> Value {
    let procs = json!([
        {"pid": 1000, "tid": 1000, "uid": 0, "gid": 0, "exe": "/usr/sbin/waagent", "cmd": ["waagent", "-daemon"], "known": true},
        {"pid": 1010, "tid": 1010, "uid": 1001, "gid": 1001, "exe": "/usr/bin/curl", "cmd": ["curl", "-s"], "known": true},
        {"pid": 1020, "tid": 1020, "uid": 0, "gid": 0, "exe": "/usr/bin/python3", "cmd": ["python3", "job.py"], "known": true}
    ]);
    let deny_doc = |serial: u64, r: &mut Rng| -> Value {
        let mut rules = serde_json::Map::new();
        for ep in ["imds", "wireserver", "hostga"] {
            let mut item = grant_all_item(&format!("{}-deny-{}", ep, serial), "enforce", "deny", None);
            item["rules"]["roleAssignments"] = json!([]); // nobody is granted anything
            if r.chance(1, 3) {
                item["rules"]["privileges"] = json!([{"name": format!("p{}", serial), "path": "/metadata"}]);
            }
            rules.insert(ep.to_string(), item);
        }
        doc_v2(true, Some(Value::Object(rules)))
    };
    let mut steps = Vec::new();
    steps.push(json!({"t": "doc", "doc": deny_doc(0, r)}));
    steps.push(json!({"t": "wait_polls", "n": 2, "max_s": 200}));
    let swaps = 1 + r.below(if tier == "thorough" { 5 } else { 3 });
    let mut tokn = 0u64;
    for s in 0..swaps {
        steps.push(json!({"t": "doc", "doc": deny_doc(s + 1, r)}));
        let mut conns = Vec::new();
        for _ in 0..1 + r.below(3) {
            let dst = *r.pick(&["imds", "imds", "wire", "ga"]);
            let nreq = 40 + r.below(160);
            let mut reqs = Vec::new();
            for _ in 0..nreq {
                tokn += 1;
                reqs.push(json!({"method": "GET", "target": format!("/metadata/instance?n={}", tokn), "headers": [["Host", host_name_of(dst)], ["Metadata", "true"]], "tok": format!("t{}", tokn)}));
            }
            conns.push(json!({"proc": *r.pick(&[0u64, 2, 2]), "dst": dst, "start_ms": r.below(300), "pipeline": false, "gap_ms": 2 + r.below(25), "reqs": reqs}));
        }
        steps.push(json!({"t": "clients", "conns": conns}));
    }
    let mut knobs = gen_knobs(r, false);
    knobs["sched.profile"] = json!(1);
    knobs["sched.victim_a"] = json!(6); // the key keeper task (spawned after the six state actors)
    knobs["sched.victim_b"] = json!(-1);
    knobs["sched.victim_ms"] = json!(*r.pick(&[3u64, 10, 25, 60]));
    let oracles: Vec<&str> = if prop == "C11" { vec!["C11", "C01"] } else { vec!["C01", "C03"] };
    json!({
        "scenario": format!("proxy:{}", prop), "seed": seed, "family": "proxy", "prop": prop, "variant": "policy_swap_storm",
        "knobs": knobs, "procs": procs, "users": users_json(), "steps": steps, "oracles": oracles,
        "config": {"pollKeyStatusIntervalInSeconds": 1}, "settle_ms": 3000, "faulty": false
    })
}

/// key negotiation fails when a new document arrives: the host withdraws its latch (so the agent has to acquire and
/// attest again) and answers the next acquire / attest requests with errors - a few of them (the agent gets through a
/// poll or two later) or many (it does not get through while the following requests are served). Returns whether the
/// faults are meant to outlast the next batch of requests.
pub fn gen_key_negotiation_faults(r: &mut Rng, steps: &mut Vec<Value>) -> bool {
    let persistent = r.chance(1, 2);
    steps.push(json!({"t": "host_latch", "mode": "none"}));
    let k = if persistent { 60 } else { 1 + r.below(3) };
    let kind = *r.pick(&["acquire", "attest", "acquire"]);
    for _ in 0..k {
        let f = match r.below(3) {
            0 => json!({"f": "status", "status": *r.pick(&[500u64, 503])}),
            1 => json!({"f": "reset_before"}),
            _ => json!({"f": "reset_after"}),
        };
        steps.push(json!({"t": "host_fault", "kind": kind, "fault": f}));
    }
    persistent
}

/// faults placed right before a batch of client connections: the next requests of local clients that reach a host
/// draw from the "client" queue; connection-level faults attach to the next connections the agent opens upstream
pub fn gen_upstream_faults(r: &mut Rng, steps: &mut Vec<Value>) {
    for _ in 0..r.below(3) {
        let f = match r.below(7) {
            0 => json!({"f": "status", "status": *r.pick(&[500u64, 502, 503, 429, 404, 410])}),
            1 => json!({"f": "reset_before"}),
            2 => json!({"f": "reset_after"}),
            3 | 4 => json!({"f": "cut", "n": if r.chance(1, 3) { r.below(400) } else { 150 + r.below(6000) }}),
            _ => json!({"f": "stall", "ms": *r.pick(&[1u64, 5, 50, 500, 3000])}),
        };
        steps.push(json!({"t": "host_fault", "kind": "client", "fault": f}));
    }
    for _ in 0..r.below(3) {
        let kind = match r.below(5) {
            0 => json!({"f": "refuse"}),
            1 => json!({"f": "reset_after", "pipe": r.below(2), "bytes": 1 + r.below(700)}),
            2 => json!({"f": "close_after", "pipe": 1, "bytes": 1 + r.below(400)}),
            _ => json!({"f": "stall", "pipe": r.below(2), "bytes": 1 + r.below(300), "ms": *r.pick(&[1u64, 20, 400, 2500])}),
        };
        steps.push(json!({"t": "net_fault", "dst": *r.pick(&["imds", "wire", "ga"]), "agent": true, "kind": kind}));
    }
}

/// C02: rule-heavy documents; every request set is sent twice, the second time after the host has served an
/// equivalent permuted document (lists shuffled, new id); plus direct evaluations of the decision function.
fn permute_item(r: &mut Rng, item: &Value, new_id: &str) -> Value {
    let mut it = item.clone();
    it["id"] = json!(new_id);
    for sect in ["privileges", "roles", "identities", "roleAssignments"] {
        if let Some(a) = it["rules"][sect].as_array_mut() {
            r.shuffle(a);
            for e in a.iter_mut() {
                for inner in ["privileges", "identities"] {
                    if let Some(x) = e[inner].as_array_mut() {
                        r.shuffle(x);
                    }
                }
            }
        }
    }
    it
}

pub fn c02_urls(r: &mut Rng, item: &Value) -> Vec<String> {
    let mut urls = Vec::new();
    let privs = item["rules"]["privileges"].as_array().cloned().unwrap_or_default();
    for p in privs.iter() {
        let path = p["path"].as_str().unwrap_or("/");
        let mut q: Vec<String> = Vec::new();
        if let Some(qp) = p["queryParameters"].as_object() {
            for (k, v) in qp {
                let vs = v.as_str().unwrap_or("");
                match r.below(6) {
                    0 => {}                                                        // parameter missing
                    1 => q.push(format!("{}={}", k, "other")),                      // wrong value
                    2 => q.push(format!("{}={}", flip_case(r, k), flip_case(r, vs))), // case variant
                    3 => {
                        q.push(format!("{}={}", k, vs));
                        q.push(format!("extra={}", r.below(9)));
                    }
                    _ => q.push(if vs.is_empty() && r.chance(1, 2) { k.clone() } else { format!("{}={}", k, vs) }),
                }
            }
        }
        r.shuffle(&mut q);
        let pth = match r.below(4) {
            0 => flip_case(r, path),
            1 => format!("{}/sub", path.trim_end_matches('/')),
            2 => path.to_lowercase(),
            _ => path.to_string(),
        };
        urls.push(if q.is_empty() { pth } else { format!("{}?{}", pth, q.join("&")) });
    }
    urls.push("/unrelated/path".to_string());
    urls.push(format!("{}?{}", r.pick(&PATHS).replace("..", "x"), r.pick(&QUERIES)));
    urls
}

fn gen_c02(seed: u64, r: &mut Rng, procs: Value, o: RuleOpts, dup_names: bool, tier: &str) -> Value {
    let nprocs = procs.as_array().unwrap().len() as u64;
    let mut steps = Vec::new();
    let mut tokn = 0u64;
    let nphases = 1 + r.below(if tier == "thorough" { 3 } else { 2 });
    let mut direct = Vec::new();
    for ph in 0..nphases {
        let mut doc = gen_doc(r, &procs, &o, ph * 2);
        if doc["version"] != "2.0" || !doc["authorizationRules"].is_object() {
            let mut rules = serde_json::Map::new();
            for ep in ["imds", "wireserver", "hostga"] {
                let mode = *r.pick(&["enforce", "audit", "Enforce"]);
                let da = *r.pick(&["allow", "deny"]);
                rules.insert(ep.to_string(), gen_item(r, &format!("{}-{}", ep, ph * 2), &procs, &o, mode, da));
            }
            doc = doc_v2(true, Some(Value::Object(rules)));
        }
        // requests derived from the rules
        let mut conns = Vec::new();
        for ep in ["imds", "wireserver", "hostga"] {
            let item = doc["authorizationRules"][ep].clone();
            if !item.is_object() {
                continue;
            }
            let urls = c02_urls(r, &item);
            direct.push(json!({"item": item, "urls": urls}));
            let dst = match ep { "imds" => "imds", "wireserver" => "wire", _ => "ga" };
            for _ in 0..1 + r.below(2) {
                let p = if dst == "imds" { r.below(nprocs) } else { 0 }; // proc 0 is root
                let mut reqs = Vec::new();
                for u in urls.iter() {
                    if r.chance(2, 3) {
                        tokn += 1;
                        reqs.push(json!({"method": "GET", "target": u, "headers": [["Host", host_name_of(dst)], ["Metadata", "true"]], "tok": format!("t{}", tokn)}));
                    }
                }
                if !reqs.is_empty() {
                    conns.push(json!({"proc": p, "dst": dst, "start_ms": r.below(10), "pipeline": false, "reqs": reqs}));
                }
            }
        }
        steps.push(json!({"t": "doc", "doc": doc}));
        steps.push(json!({"t": "wait_polls", "n": 2, "max_s": 200}));
        steps.push(json!({"t": "clients", "conns": conns, "twin_group": ph}));
        // the equivalent permuted document, same requests under fresh tokens
        let mut doc2 = doc.clone();
        for ep in ["imds", "wireserver", "hostga"] {
            if doc["authorizationRules"][ep].is_object() {
                doc2["authorizationRules"][ep] = permute_item(r, &doc["authorizationRules"][ep], &format!("{}-{}", ep, ph * 2 + 1));
            }
        }
        let mut conns2 = conns.clone();
        for c in conns2.iter_mut() {
            for q in c["reqs"].as_array_mut().unwrap().iter_mut() {
                let t = q["tok"].as_str().unwrap().to_string();
                q["twin_of"] = json!(t);
                q["tok"] = json!(format!("{}b", t));
            }
        }
        steps.push(json!({"t": "doc", "doc": doc2}));
        steps.push(json!({"t": "wait_polls", "n": 2, "max_s": 200}));
        steps.push(json!({"t": "clients", "conns": conns2, "twin_group": ph}));
    }
    steps.push(json!({"t": "rbac_direct", "cases": direct, "procs": (0..nprocs).collect::<Vec<_>>()}));
    let knobs = gen_knobs(r, false);
    json!({
        "scenario": "proxy:C02", "seed": seed, "family": "proxy", "prop": "C02", "dup_names": dup_names,
        "knobs": knobs, "procs": procs, "users": users_json(), "steps": steps, "oracles": ["C02"],
        "config": {"pollKeyStatusIntervalInSeconds": 1 + r.below(5)}, "settle_ms": 500, "faulty": false
    })
}

/// C07: histories over a tiny ephemeral range: attributed connection on port p -> close -> direct
/// connection from port p; root then non-root on one port; keep-alive connections with many requests;
/// several connections accepted in one instant.
fn gen_c07(seed: u64, r: &mut Rng, procs: Value, tier: &str) -> Value {
    let nprocs = procs.as_array().unwrap().len() as u64;
    let nports = 1 + r.below(4);
    let mut steps = Vec::new();
    let doc = if r.chance(1, 2) { doc_v1("wireserver") } else { doc_v2(true, Some(json!({"imds": grant_all_item("imds-0", *r.pick(&["audit", "enforce", "disabled"]), "allow", None)}))) };
    steps.push(json!({"t": "doc", "doc": doc}));
    steps.push(json!({"t": "wait_polls", "n": 2, "max_s": 200}));
    let mut tokn = 0u64;
    let rounds = 2 + r.below(if tier == "thorough" { 8 } else { 5 });
    for _ in 0..rounds {
        // never more simultaneous client connections than ephemeral ports: a connect() that fails between
        // the two kernel hooks (port exhaustion) is a kernel-level fault outside the claimed check
        let nconn = 1 + r.below(nports.min(6));
        let mut conns = Vec::new();
        let same_instant = r.chance(1, 2);
        // the metadata endpoint may be unreachable for a while: the proxy's upstream connect is refused
        if r.chance(1, 4) {
            for _ in 0..1 + r.below(3) {
                steps.push(json!({"t": "net_fault", "dst": *r.pick(&["imds", "wire"]), "agent": true, "kind": {"f": "refuse"}}));
            }
        }
        for _ in 0..nconn {
            let p = r.below(nprocs);
            let dst = *r.pick(&["imds", "imds", "wire", "direct", "direct", "ga"]);
            let nreq = if r.chance(1, 5) { 5 + r.below(16) } else { 1 + r.below(3) };
            let mut reqs = Vec::new();
            for _ in 0..nreq {
                tokn += 1;
                reqs.push(json!({"method": *r.pick(&["GET", "GET", "POST"]), "target": format!("{}?n={}", r.pick(&["/metadata/instance", "/machine", "/metadata/identity/oauth2/token"]), tokn), "headers": [["Host", host_name_of(dst)], ["Metadata", "true"]], "tok": format!("t{}", tokn)}));
            }
            let last = reqs.len() - 1;
            if reqs[last]["method"] == "POST" {
                reqs[last]["body"] = json!({"len": r.below(300), "seed": r.next() >> 8, "ascii": true});
            }
            let mut c = json!({"proc": p, "dst": dst, "start_ms": if same_instant { 0 } else { r.below(8) }, "pipeline": false, "gap_ms": r.below(2), "reqs": reqs});
            // a client that connects and goes away at once (cancelled request, probe): its source port is
            // free again while the proxy may not have looked at the connection yet
            if dst != "direct" && r.chance(1, 5) {
                c["reqs"] = json!([]);
            } else if dst != "direct" && r.chance(1, 8) {
                c["close"] = json!(if r.chance(1, 2) { "reset_after_send".to_string() } else { format!("{}:{}:{}", *r.pick(&["reset_after_send", "fin_after_send"]), *r.pick(&[0u64, 0, 1, 4]), r.below(30)) });
            }
            conns.push(c);
        }
        steps.push(json!({"t": "clients", "conns": conns}));
    }
    steps.push(json!({"t": "sleep", "ms": 2000}));
    steps.push(json!({"t": "audit_map_probe"}));
    let mut knobs = gen_knobs(r, true);
    knobs["net.connect_lat_max_ms"] = json!(*r.pick(&[0u64, 0, 1]));
    json!({
        "scenario": "proxy:C07", "seed": seed, "family": "proxy", "prop": "C07", "ports": [40000, nports],
        "knobs": knobs, "procs": procs, "users": users_json(), "steps": steps, "oracles": ["C07"],
        "config": {"pollKeyStatusIntervalInSeconds": 15}, "settle_ms": 3000, "faulty": false
    })
}

/// C11: one mode per endpoint per phase, bursts of identical denials from one caller and from concurrent
/// connections, mixtures of allowed and denied; the published summaries are collected at the end.
fn gen_c11(seed: u64, r: &mut Rng, procs: Value, tier: &str) -> Value {
    let upstream_faults = r.chance(1, 3);
    // callers that differ only in one attribute the summary is keyed by: same user and executable, command
    // lines sharing a long prefix (java -cp <classpath> MainA / MainB), or same command line, other user
    let mut procs = procs;
    let mut twins: Vec<u64> = Vec::new();
    if r.chance(2, 3) {
        let base = procs.as_array().unwrap().len() as u64;
        let uid = *r.pick(&[1001u64, 1002, 1003]);
        let exe = *r.pick(&EXES);
        let prefix_len = *r.pick(&[20usize, 180, 240, 300, 1000, 4000]);
        let common: String = (0..prefix_len).map(|i| (b'a' + (i % 26) as u8) as char).collect();
        for (k, tail) in ["MainA", "MainB", "MainA --verbose"].iter().enumerate().take(2 + r.below(2) as usize) {
            procs.as_array_mut().unwrap().push(json!({"pid": 3000 + k as u64 * 5, "tid": 3000 + k as u64 * 5, "uid": uid, "gid": uid, "exe": exe, "cmd": [exe.rsplit('/').next().unwrap_or(""), "-cp", common, tail], "known": true}));
            twins.push(base + k as u64);
        }
    }
    let nprocs = procs.as_array().unwrap().len() as u64;
    let o = RuleOpts { allow_upper_paths: false, allow_dup_names: false, allow_missing_sections: false, allow_dangling: true };
    let mut steps = Vec::new();
    let mut tokn = 0u64;
    let nphases = 1 + r.below(if tier == "thorough" { 3 } else { 2 });
    for ph in 0..nphases {
        let mut rules = serde_json::Map::new();
        for ep in ["imds", "wireserver", "hostga"] {
            let mode = *r.pick(&["enforce", "audit", "audit", "disabled"]);
            let da = *r.pick(&["allow", "deny", "deny"]);
            rules.insert(ep.to_string(), gen_item(r, &format!("{}-{}", ep, ph), &procs, &o, mode, da));
        }
        let key_faults = r.chance(1, 4);
        let mut key_faults_persistent = false;
        if key_faults {
            key_faults_persistent = gen_key_negotiation_faults(r, &mut steps);
        }
        steps.push(json!({"t": "doc", "doc": doc_v2(true, Some(Value::Object(rules)))}));
        steps.push(json!({"t": "wait_polls", "n": 2, "max_s": 200}));
        if key_faults && !key_faults_persistent {
            steps.push(json!({"t": "drain_faults", "max_s": 120}));
            steps.push(json!({"t": "wait_polls", "n": 1, "max_s": 200}));
        }
        let mut conns = Vec::new();
        for _ in 0..1 + r.below(4) {
            let dst = *r.pick(&["imds", "imds", "wire", "ga"]);
            // WireServer/HostGAPlugin: elevated callers, so that only the rules can refuse
            let p = if dst == "imds" { r.below(nprocs) } else { 0 };
            let burst = r.chance(1, 3);
            let nreq = if burst { 3 + r.below(10) } else { 1 + r.below(5) };
            let base = format!("{}{}", r.pick(&RULE_PATHS).to_lowercase(), if r.chance(1, 3) { "?api-version=2018-02-01" } else { "" });
            let mut reqs = Vec::new();
            for _ in 0..nreq {
                tokn += 1;
                let target = if burst { base.clone() } else { format!("{}{}", r.pick(&RULE_PATHS).to_lowercase(), if r.chance(1, 3) { "?comp=goalstate" } else { "" }) };
                reqs.push(json!({"method": "GET", "target": target, "headers": [["Host", host_name_of(dst)], ["Metadata", "true"]], "tok": format!("t{}", tokn)}));
            }
            let copies = if burst && r.chance(1, 2) { 2 + r.below(3) } else { 1 };
            for _ in 0..copies {
                let mut rq = reqs.clone();
                for q in rq.iter_mut() {
                    tokn += 1;
                    q["tok"] = json!(format!("t{}", tokn));
                }
                conns.push(json!({"proc": p, "dst": dst, "start_ms": r.below(5), "pipeline": false, "reqs": rq}));
            }
        }
        // the look-alike callers each make the same request to IMDS (denied or not, as the rules say)
        if !twins.is_empty() {
            let target = format!("{}{}", r.pick(&RULE_PATHS).to_lowercase(), "?api-version=2018-02-01");
            for tw in twins.iter() {
                for _ in 0..1 + r.below(3) {
                    tokn += 1;
                    conns.push(json!({"proc": tw, "dst": "imds", "start_ms": r.below(5), "pipeline": false, "reqs": [{"method": "GET", "target": target, "headers": [["Host", host_name_of("imds")], ["Metadata", "true"]], "tok": format!("t{}", tokn)}]}));
                }
            }
        }
        if upstream_faults {
            gen_upstream_faults(r, &mut steps);
        }
        steps.push(json!({"t": "clients", "conns": conns}));
        if upstream_faults {
            steps.push(json!({"t": "clear_faults"}));
        }
        if key_faults_persistent {
            steps.push(json!({"t": "clear_faults", "all": true}));
        }
    }
    steps.push(json!({"t": "sleep", "ms": 125_000}));
    steps.push(json!({"t": "collect_status"}));
    let knobs = gen_knobs(r, false);
    json!({
        "scenario": "proxy:C11", "seed": seed, "family": "proxy", "prop": "C11",
        "knobs": knobs, "procs": procs, "users": users_json(), "steps": steps, "oracles": ["C11", "C01"],
        "config": {"pollKeyStatusIntervalInSeconds": 1 + r.below(5)}, "settle_ms": 1000, "faulty": false
    })
}

/// C15: body lengths around both limits, declared by Content-Length or only discovered while reading a chunked
/// body, on exempt and non-exempt method/URL combinations (with case variants of the exempt URLs), all on
/// attributed, authorised connections so that the limit is the only reason to refuse.
fn gen_c15(seed: u64, r: &mut Rng, procs: Value, tier: &str) -> Value {
    let upstream_faults = r.chance(1, 3);
    const LOW: u64 = 100 * 1024;
    const LARGE: u64 = 100 * 1024 * 1024;
    let mut steps = Vec::new();
    steps.push(json!({"t": "doc", "doc": if r.chance(1, 2) { doc_v1("wireserver") } else { doc_v1("disabled") }}));
    steps.push(json!({"t": "wait_polls", "n": 2, "max_s": 200}));
    let mut tokn = 0u64;
    let rounds = 1 + r.below(3);
    let mut any_huge = false;
    for _ in 0..rounds {
        let mut conns = Vec::new();
        for _ in 0..1 + r.below(3) {
            let dst = *r.pick(&["wire", "ga", "imds", "other_redirected"]);
            let mut reqs = Vec::new();
            for _ in 0..1 + r.below(3) {
                tokn += 1;
                // target / method: exempt combinations in every letter case, near misses, ordinary targets
                let (method, target) = match r.below(8) {
                    0 => ("PUT", flip_case(r, "/vmAgentLog")),
                    1 => ("POST", flip_case(r, "/machine/?comp=telemetrydata")),
                    2 => ("POST", flip_case(r, "/vmAgentLog")),                // wrong method for the exemption
                    3 => ("PUT", "/machine/?comp=telemetrydata".to_string()), // wrong method for the exemption
                    4 => ("PUT", "/vmAgentLog?x=1".to_string()),              // not the exempt URL
                    5 => ("POST", "/machine?comp=telemetrydata".to_string()), // not the exempt URL
                    _ => (*r.pick(&["POST", "PUT", "PATCH"]), r.pick(&["/metadata/instance", "/machine/374188df/x?comp=config", "/upload"]).to_string()),
                };
                let exempt = (method == "PUT" && target.to_lowercase() == "/vmagentlog") || (method == "POST" && target.to_lowercase() == "/machine/?comp=telemetrydata");
                let len: u64 = match r.below(9) {
                    0 => 0,
                    1 => 1,
                    2 => LOW - 1,
                    3 => LOW,
                    4 => LOW + 1,
                    5 => LOW + 4096,
                    6 => 2 * LOW,
                    7 => LOW - r.below(3000),
                    _ => LOW + 1 + r.below(50_000),
                };
                let chunked = r.chance(1, 2);
                let mut q = json!({"method": method, "target": target, "headers": [["Host", host_name_of(dst)], ["x-ms-version", "2012-11-30"]], "tok": format!("t{}", tokn), "body": {"len": len, "seed": r.next() >> 8, "ascii": r.chance(1, 2)}});
                if chunked {
                    q["chunks"] = json!((0..1 + r.below(4)).map(|_| match r.below(4) { 0 => 1 + r.below(16), 1 => 1 + r.below(4096), _ => 4096 + r.below(61_000) }).collect::<Vec<_>>());
                }
                if len > 0 && r.chance(1, 5) {
                    q["slow"] = gen_slow(r);
                }
                // the 100 MiB class: a few runs move the whole body (every 12th exempt upload in the thorough tier, every
                // 30th in the quick tier)
                if exempt && !any_huge && r.chance(1, if tier == "thorough" { 10 } else { 16 }) {
                    let big = *r.pick(&[LARGE, LARGE + 1, LARGE - 1, LARGE + 4096, LARGE + 1]);
                    q["body"]["len"] = json!(big);
                    q["chunks"] = if r.chance(2, 3) { json!([65536]) } else { Value::Null };
                    q["slow"] = Value::Null;
                    any_huge = true;
                    // ... half of them on a client connection whose upstream connection the host has just closed
                    if r.chance(1, 2) {
                        tokn += 1;
                        reqs.push(json!({"method": "GET", "target": "/metadata/instance?warmup=1", "headers": [["Host", host_name_of(dst)], ["x-ms-version", "2012-11-30"]], "tok": format!("t{}", tokn),
                            "resp": {"status": 200, "headers": [["Content-Type", "text/plain"]], "body": {"len": 10, "seed": 1, "ascii": true}, "close_after": true}}));
                    }
                }
                reqs.push(q);
                let over = len > if exempt { LARGE } else { LOW };
                if over {
                    break; // the proxy closes the connection after refusing: nothing may follow on it
                }
            }
            conns.push(json!({"proc": 0, "dst": dst, "start_ms": r.below(10), "pipeline": false, "reqs": reqs}));
        }
        // declared-length requests of the 100 MiB class: the proxy must refuse on the header alone
        if r.chance(1, 3) {
            tokn += 1;
            let (method, target) = if r.chance(1, 2) { ("PUT", flip_case(r, "/vmAgentLog")) } else { ("POST", flip_case(r, "/machine/?comp=telemetrydata")) };
            conns.push(json!({"proc": 0, "dst": "wire", "start_ms": r.below(10), "pipeline": false, "close": "normal",
                "reqs": [{"method": method, "target": target, "headers": [["Host", "168.63.129.16"], ["Content-Length", (LARGE + 1 + r.below(1000)).to_string()], ["x-ms-version", "2012-11-30"]], "tok": format!("t{}", tokn), "declared_only": true}]}));
        }
        if upstream_faults {
            gen_upstream_faults(r, &mut steps);
        }
        steps.push(json!({"t": "clients", "conns": conns, "max_s": 3000}));
        if upstream_faults {
            steps.push(json!({"t": "clear_faults"}));
        }
    }
    let mut knobs = gen_knobs(r, false);
    if any_huge {
        knobs["net.frag_ppm"] = json!(0);
        knobs["net.short_write_ppm"] = json!(0);
        knobs["net.short_read_ppm"] = json!(0);
    }
    json!({
        "scenario": "proxy:C15", "seed": seed, "family": "proxy", "prop": "C15",
        "knobs": knobs, "procs": procs, "users": users_json(), "steps": steps, "oracles": ["C15", "C14"],
        "config": {"pollKeyStatusIntervalInSeconds": 15}, "settle_ms": 3000, "faulty": false
    })
}
