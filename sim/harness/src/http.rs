//! Independent HTTP/1.1 codec over raw bytes (RFC 9112 framing). It is the witness of "what the host
//! received" and "what the client received"; it deliberately shares nothing with hyper.

use tokio::io::{AsyncRead, AsyncReadExt, AsyncWrite, AsyncWriteExt};

#[derive(Clone, Debug, Default)]
pub struct Head {
    /// request: method, target, version; response: version, status, reason
    pub start: (String, String, String),
    /// header lines as received: (name as sent, raw value bytes with surrounding OWS removed)
    pub headers: Vec<(String, Vec<u8>)>,
    /// the raw head bytes, for byte-level checks
    pub raw: Vec<u8>,
}

#[derive(Clone, Debug, Default)]
pub struct Msg {
    pub head: Head,
    pub body: Vec<u8>,
    pub chunked: bool,
    /// sizes of the chunks as received (chunked only)
    pub chunk_sizes: Vec<usize>,
    /// body ended by connection close
    pub until_close: bool,
    /// virtual time (ns) at which the first byte of the head / the last byte of the message was read
    pub t_first_ns: u64,
    pub t_last_ns: u64,
}

impl Head {
    pub fn get_all(&self, name: &str) -> Vec<&Vec<u8>> {
        self.headers.iter().filter(|(n, _)| n.eq_ignore_ascii_case(name)).map(|(_, v)| v).collect()
    }
    pub fn get(&self, name: &str) -> Option<String> {
        self.get_all(name).first().map(|v| String::from_utf8_lossy(v).to_string())
    }
    pub fn count(&self, name: &str) -> usize {
        self.get_all(name).len()
    }
}
impl Msg {
    pub fn method(&self) -> &str {
        &self.head.start.0
    }
    pub fn target(&self) -> &str {
        &self.head.start.1
    }
    pub fn status(&self) -> u16 {
        self.head.start.1.parse().unwrap_or(0)
    }
}

#[derive(Debug)]
pub enum RErr {
    Eof,          // clean end of stream before any byte of a message
    Truncated,    // stream ended inside a message
    Io(String),   // reset etc.
    Bad(String),  // unparsable
    TooLarge,
}

pub struct Reader<S> {
    pub s: S,
    buf: Vec<u8>,
    pos: usize,
    eof: bool,
}

impl<S: AsyncRead + Unpin> Reader<S> {
    pub fn new(s: S) -> Self {
        Reader { s, buf: Vec::new(), pos: 0, eof: false }
    }
    pub fn into_inner(self) -> S {
        self.s
    }
    pub fn buffered(&self) -> usize {
        self.buf.len() - self.pos
    }
    async fn fill(&mut self) -> Result<usize, RErr> {
        if self.eof {
            return Ok(0);
        }
        if self.pos > 0 && self.pos == self.buf.len() {
            self.buf.clear();
            self.pos = 0;
        }
        let mut tmp = [0u8; 16384];
        match self.s.read(&mut tmp).await {
            Ok(0) => {
                self.eof = true;
                Ok(0)
            }
            Ok(n) => {
                self.buf.extend_from_slice(&tmp[..n]);
                Ok(n)
            }
            Err(e) => Err(RErr::Io(e.to_string())),
        }
    }
    async fn read_line(&mut self, started: bool) -> Result<Vec<u8>, RErr> {
        loop {
            if let Some(i) = self.buf[self.pos..].iter().position(|b| *b == b'\n') {
                let mut line = self.buf[self.pos..self.pos + i].to_vec();
                self.pos += i + 1;
                if line.last() == Some(&b'\r') {
                    line.pop();
                }
                return Ok(line);
            }
            if self.buf.len() - self.pos > 1 << 20 {
                return Err(RErr::TooLarge);
            }
            if self.fill().await? == 0 {
                return Err(if started || self.pos < self.buf.len() { RErr::Truncated } else { RErr::Eof });
            }
        }
    }
    async fn read_exact_n(&mut self, n: usize, out: &mut Vec<u8>) -> Result<(), RErr> {
        let mut need = n;
        while need > 0 {
            if self.pos == self.buf.len() {
                if self.fill().await? == 0 {
                    return Err(RErr::Truncated);
                }
            }
            let take = need.min(self.buf.len() - self.pos);
            out.extend_from_slice(&self.buf[self.pos..self.pos + take]);
            self.pos += take;
            need -= take;
        }
        Ok(())
    }

    async fn read_head(&mut self) -> Result<(Head, u64), RErr> {
        // tolerate leading empty lines (RFC 9112 2.2)
        let mut t_first;
        let start_line = loop {
            let had = self.buffered() > 0;
            let l = self.read_line(false).await?;
            t_first = vrt::time::now_ns();
            let _ = had;
            if !l.is_empty() {
                break l;
            }
        };
        let mut raw = start_line.clone();
        raw.extend_from_slice(b"\r\n");
        let sl = String::from_utf8_lossy(&start_line).to_string();
        let mut it = sl.splitn(3, ' ');
        let a = it.next().unwrap_or("").to_string();
        let b = it.next().unwrap_or("").to_string();
        let c = it.next().unwrap_or("").to_string();
        let mut headers = Vec::new();
        loop {
            let l = self.read_line(true).await?;
            raw.extend_from_slice(&l);
            raw.extend_from_slice(b"\r\n");
            if l.is_empty() {
                break;
            }
            let colon = l.iter().position(|b| *b == b':').ok_or_else(|| RErr::Bad(format!("header line without colon: {:?}", String::from_utf8_lossy(&l))))?;
            let name = String::from_utf8_lossy(&l[..colon]).to_string();
            let mut v = &l[colon + 1..];
            while let Some((f, rest)) = v.split_first() {
                if *f == b' ' || *f == b'\t' {
                    v = rest;
                } else {
                    break;
                }
            }
            while let Some((f, rest)) = v.split_last() {
                if *f == b' ' || *f == b'\t' {
                    v = rest;
                } else {
                    break;
                }
            }
            headers.push((name, v.to_vec()));
        }
        Ok((Head { start: (a, b, c), headers, raw }, t_first))
    }

    async fn read_chunked(&mut self, m: &mut Msg) -> Result<(), RErr> {
        loop {
            let l = self.read_line(true).await?;
            let ls = String::from_utf8_lossy(&l).to_string();
            let sz = ls.split(';').next().unwrap_or("").trim();
            let n = usize::from_str_radix(sz, 16).map_err(|_| RErr::Bad(format!("bad chunk size line {:?}", ls)))?;
            if n == 0 {
                // trailers
                loop {
                    let t = self.read_line(true).await?;
                    if t.is_empty() {
                        break;
                    }
                }
                return Ok(());
            }
            m.chunk_sizes.push(n);
            let mut body = std::mem::take(&mut m.body);
            self.read_exact_n(n, &mut body).await?;
            m.body = body;
            let crlf = self.read_line(true).await?;
            if !crlf.is_empty() {
                return Err(RErr::Bad("chunk data not followed by CRLF".into()));
            }
        }
    }

    pub async fn read_request(&mut self) -> Result<Msg, RErr> {
        let (head, t_first) = self.read_head().await?;
        let mut m = Msg { head, t_first_ns: t_first, ..Default::default() };
        let te = m.head.get_all("transfer-encoding");
        if te.iter().any(|v| String::from_utf8_lossy(v).to_ascii_lowercase().contains("chunked")) {
            m.chunked = true;
            self.read_chunked(&mut m).await?;
        } else if let Some(cl) = m.head.get("content-length") {
            let n: usize = cl.trim().parse().map_err(|_| RErr::Bad(format!("bad content-length {:?}", cl)))?;
            let mut body = Vec::with_capacity(n.min(1 << 20));
            self.read_exact_n(n, &mut body).await?;
            m.body = body;
        }
        m.t_last_ns = vrt::time::now_ns();
        Ok(m)
    }

    /// `head_request`: the response answers a HEAD request (no body whatever the headers say)
    pub async fn read_response(&mut self, head_request: bool) -> Result<Msg, RErr> {
        loop {
            let (head, t_first) = self.read_head().await?;
            let mut m = Msg { head, t_first_ns: t_first, ..Default::default() };
            let st = m.status();
            if (100..200).contains(&st) {
                continue; // interim response
            }
            let no_body = head_request || st == 204 || st == 304;
            if !no_body {
                let te = m.head.get_all("transfer-encoding");
                if te.iter().any(|v| String::from_utf8_lossy(v).to_ascii_lowercase().contains("chunked")) {
                    m.chunked = true;
                    self.read_chunked(&mut m).await?;
                } else if let Some(cl) = m.head.get("content-length") {
                    let n: usize = cl.trim().parse().map_err(|_| RErr::Bad(format!("bad content-length {:?}", cl)))?;
                    let mut body = Vec::with_capacity(n.min(1 << 20));
                    self.read_exact_n(n, &mut body).await?;
                    m.body = body;
                } else {
                    m.until_close = true;
                    loop {
                        if self.pos < self.buf.len() {
                            m.body.extend_from_slice(&self.buf[self.pos..]);
                            self.pos = self.buf.len();
                        }
                        match self.fill().await {
                            Ok(0) => break,
                            Ok(_) => {}
                            Err(e) => return Err(e),
                        }
                    }
                }
            }
            m.t_last_ns = vrt::time::now_ns();
            return Ok(m);
        }
    }
}

pub enum Body<'a> {
    None,
    Len(&'a [u8]),
    /// chunked with the given chunk sizes (cycled); sizes must be > 0
    Chunked(&'a [u8], &'a [usize]),
}

/// Serialise a request exactly as given: header lines verbatim, in order.
pub fn build_request(method: &str, target: &str, headers: &[(String, Vec<u8>)], body: Body<'_>) -> Vec<u8> {
    let mut out = Vec::new();
    out.extend_from_slice(format!("{} {} HTTP/1.1\r\n", method, target).as_bytes());
    for (n, v) in headers {
        out.extend_from_slice(n.as_bytes());
        out.extend_from_slice(b": ");
        out.extend_from_slice(v);
        out.extend_from_slice(b"\r\n");
    }
    match body {
        Body::None => out.extend_from_slice(b"\r\n"),
        Body::Len(b) => {
            out.extend_from_slice(format!("Content-Length: {}\r\n\r\n", b.len()).as_bytes());
            out.extend_from_slice(b);
        }
        Body::Chunked(b, sizes) => {
            out.extend_from_slice(b"Transfer-Encoding: chunked\r\n\r\n");
            write_chunks(&mut out, b, sizes);
        }
    }
    out
}

pub fn write_chunks(out: &mut Vec<u8>, b: &[u8], sizes: &[usize]) {
    let mut off = 0;
    let mut i = 0;
    while off < b.len() {
        let n = if sizes.is_empty() { b.len() } else { sizes[i % sizes.len()].max(1) }.min(b.len() - off);
        out.extend_from_slice(format!("{:x}\r\n", n).as_bytes());
        out.extend_from_slice(&b[off..off + n]);
        out.extend_from_slice(b"\r\n");
        off += n;
        i += 1;
    }
    out.extend_from_slice(b"0\r\n\r\n");
}

pub fn build_response(status: u16, reason: &str, headers: &[(String, Vec<u8>)], body: Body<'_>, head_only: bool) -> Vec<u8> {
    let mut out = Vec::new();
    out.extend_from_slice(format!("HTTP/1.1 {} {}\r\n", status, reason).as_bytes());
    for (n, v) in headers {
        out.extend_from_slice(n.as_bytes());
        out.extend_from_slice(b": ");
        out.extend_from_slice(v);
        out.extend_from_slice(b"\r\n");
    }
    match body {
        Body::None => out.extend_from_slice(b"\r\n"),
        Body::Len(b) => {
            out.extend_from_slice(format!("Content-Length: {}\r\n\r\n", b.len()).as_bytes());
            if !head_only {
                out.extend_from_slice(b);
            }
        }
        Body::Chunked(b, sizes) => {
            out.extend_from_slice(b"Transfer-Encoding: chunked\r\n\r\n");
            if !head_only {
                write_chunks(&mut out, b, sizes);
            }
        }
    }
    out
}

pub async fn write_all<S: AsyncWrite + Unpin>(s: &mut S, data: &[u8]) -> std::io::Result<()> {
    s.write_all(data).await
}

pub fn reason(status: u16) -> &'static str {
    match status {
        200 => "OK",
        201 => "Created",
        202 => "Accepted",
        204 => "No Content",
        301 => "Moved Permanently",
        304 => "Not Modified",
        400 => "Bad Request",
        401 => "Unauthorized",
        403 => "Forbidden",
        404 => "Not Found",
        410 => "Gone",
        429 => "Too Many Requests",
        500 => "Internal Server Error",
        502 => "Bad Gateway",
        503 => "Service Unavailable",
        _ => "Status",
    }
}
