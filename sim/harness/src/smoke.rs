//! Smoke scenario: start the whole agent, let it poll a disabled secure channel, relay one request.
use crate::{clients, hosts};
use serde_json::json;
use std::time::Duration;
use vrt::kernel::TaskIds;

pub async fn run(seed: u64) -> serde_json::Value {
    let st = hosts::new_state(seed);
    hosts::start_all(&st);
    crate::world::write_config(&json!({}));
    vrt::procs::add_proc(vrt::procs::Proc { pid: 1001, tid: 1001, uid: 0, gid: 0, exe: Some("/usr/bin/curl".into()), cmd: vec!["curl".into(), "http://169.254.169.254/".into()] });
    let shared = azure_proxy_agent::shared_state::SharedState::start_all();
    azure_proxy_agent::service::start_service(shared.clone()).await;
    tokio::time::sleep(Duration::from_secs(5)).await;
    let plan = clients::ConnPlan {
        idx: 0,
        proc: 0,
        dst_name: "imds".into(),
        task: TaskIds { tgid: 1001, tid: 1001, uid: 0, gid: 0 },
        dst: hosts::IMDS.to_string(),
        start_ms: 0,
        pipeline: false,
        reqs: vec![clients::ReqPlan { method: "GET".into(), target: "/metadata/foo?x=1".into(), headers: vec![("Host".into(), b"169.254.169.254".to_vec()), ("Metadata".into(), b"true".to_vec())], body: vec![], has_body: false, chunks: None, tok: "c0r0".into(), declared_only: false, after_head_ms: 0, mid_body_ms: 0 }],
        gap_ms: 0,
        close: "normal".into(),
        protocol: 6,
        inject: None,
    };
    let r = clients::run_conn(plan).await;
    tokio::time::sleep(Duration::from_secs(130)).await;
    let g = st.lock().unwrap();
    let (digest, sched, counters, nev, tail) = vrt::with(|w| (w.digest, w.sched_digest, w.counters.clone(), w.events.len(), w.events.iter().rev().take(40).rev().map(|e| format!("{} {} {} {}", e.seq, e.t_ns / 1_000_000, e.kind, e.text)).collect::<Vec<_>>()));
    json!({
        "client": format!("{:?}", r.results.iter().map(|x| (x.resp.as_ref().map(|m| m.status()), x.err.clone())).collect::<Vec<_>>()),
        "redirected": r.redirected,
        "host_log": g.log.iter().map(|x| format!("{} {} {} {} sig={:?}", x.host, x.kind, x.msg.method(), x.msg.target(), x.sig)).collect::<Vec<_>>(),
        "digest": format!("{:016x}", digest), "sched": format!("{:016x}", sched), "events": nev,
        "counters": counters, "sim_ms": vrt::time::now_ms(), "tail": tail,
        "panics": format!("{:?}", crate::PANICS.lock().unwrap()),
    })
}
