//! History checks for the request-path properties (C01 C02 C03 C04 C05 C07 C10 C11 C14 C15), evaluated
//! over the recorded client results, host receive log and connection registry after the run.

use crate::clients::{ConnPlan, ConnResult, ReqPlan, ReqResult};
use crate::hosts::{self, HostFault, Recv, SigCheck};
use crate::rbac::{self, Outcome};
use crate::world::{Phase, Run};
use serde_json::{json, Value};
use std::collections::BTreeMap;

pub const LOW_LIMIT: usize = 100 * 1024;
pub const LARGE_LIMIT: usize = 100 * 1024 * 1024;

pub fn is_exempt(method: &str, target: &str) -> bool {
    let t = target.to_lowercase();
    (method == "PUT" && t == "/vmagentlog") || (method == "POST" && t == "/machine/?comp=telemetrydata")
}

fn is_framing_or_hop(name: &str) -> bool {
    matches!(name, "content-length" | "transfer-encoding" | "connection" | "keep-alive" | "te" | "trailer" | "upgrade" | "proxy-connection")
}
fn is_proxy_owned(name: &str) -> bool {
    matches!(name, "x-ms-azure-host-claims" | "x-ms-azure-host-date" | "x-ms-azure-host-authorization")
}

pub struct ReqView<'a> {
    pub phase: &'a Phase,
    pub conn: &'a ConnPlan,
    pub cres: &'a ConnResult,
    pub req: &'a ReqPlan,
    pub res: Option<&'a ReqResult>,
    pub req_idx: usize,
    pub recvs: Vec<&'a Recv>,
}

fn parse_rfc1123(s: &str) -> Option<i64> {
    // "Fri, 15 Jan 2027 08:00:00 GMT"
    let p: Vec<&str> = s.split(' ').collect();
    if p.len() != 6 || p[5] != "GMT" || !p[0].ends_with(',') {
        return None;
    }
    let day: i64 = p[1].parse().ok()?;
    let mon = ["Jan", "Feb", "Mar", "Apr", "May", "Jun", "Jul", "Aug", "Sep", "Oct", "Nov", "Dec"].iter().position(|m| *m == p[2])? as i64 + 1;
    let year: i64 = p[3].parse().ok()?;
    let t: Vec<&str> = p[4].split(':').collect();
    if t.len() != 3 {
        return None;
    }
    let (h, mi, se): (i64, i64, i64) = (t[0].parse().ok()?, t[1].parse().ok()?, t[2].parse().ok()?);
    // days from civil
    let y = if mon <= 2 { year - 1 } else { year };
    let era = if y >= 0 { y } else { y - 399 } / 400;
    let yoe = y - era * 400;
    let doy = (153 * (if mon > 2 { mon - 3 } else { mon + 9 }) + 2) / 5 + day - 1;
    let doe = yoe * 365 + yoe / 4 - yoe / 100 + doy;
    let days = era * 146097 + doe - 719468;
    let wd = ["Thu", "Fri", "Sat", "Sun", "Mon", "Tue", "Wed"][(days.rem_euclid(7)) as usize];
    if !p[0].starts_with(wd) {
        return None;
    }
    Some(days * 86400 + h * 3600 + mi * 60 + se)
}

/// When the agent removed attribution records, relative to when client connections were opened (from the event log)
pub struct AuditTrace {
    connect_seq: BTreeMap<u64, u64>,      // connection id -> event sequence number of its connect
    removes: Vec<(u64, u16)>,             // (event sequence number, source port) of each successful removal
    lookups: Vec<(u64, u16)>,             // (event sequence number, source port) of each lookup, found or not
    found_lookups: Vec<(u64, u16, i64)>,  // ... of each lookup that found a record, and the task that did it (it removes the record next)
    remove_attempts: Vec<(u64, u16, i64)>, // ... of each removal attempt, whatever its result, and its task
}
impl AuditTrace {
    pub fn from_events() -> Self {
        let mut connect_seq = BTreeMap::new();
        let mut removes = Vec::new();
        let mut lookups = Vec::new();
        let mut found_lookups = Vec::new();
        let mut remove_attempts = Vec::new();
        let port_of = |text: &str, prefix: &str| -> Option<u16> {
            let inner = text[prefix.len()..].split(']').next().unwrap_or("");
            let bytes: Vec<u8> = inner.split(',').filter_map(|x| u8::from_str_radix(x.trim(), 16).ok()).collect();
            if bytes.len() == 8 { Some(u32::from_ne_bytes([bytes[4], bytes[5], bytes[6], bytes[7]]) as u16) } else { None }
        };
        let task_of = |text: &str| -> i64 { text.split(" task=").nth(1).and_then(|x| x.split(' ').next()).and_then(|x| x.parse().ok()).unwrap_or(-1) };
        vrt::with(|w| {
            for e in w.events.iter() {
                if e.kind == "net" && e.text.starts_with("connect conn=") {
                    if let Some(id) = e.text["connect conn=".len()..].split(' ').next().and_then(|x| x.parse::<u64>().ok()) {
                        connect_seq.insert(id, e.seq);
                    }
                } else if e.kind == "kern" && e.text.starts_with("user lookup audit_map key=[") {
                    if let Some(p) = port_of(&e.text, "user lookup audit_map key=[") {
                        lookups.push((e.seq, p));
                        if e.text.ends_with("-> found") {
                            found_lookups.push((e.seq, p, task_of(&e.text)));
                        }
                    }
                } else if e.kind == "kern" && e.text.starts_with("user remove audit_map key=[") && !e.text.ends_with("-> 0") {
                    if let Some(p) = port_of(&e.text, "user remove audit_map key=[") {
                        remove_attempts.push((e.seq, p, task_of(&e.text)));
                    }
                } else if e.kind == "kern" && e.text.starts_with("user remove audit_map key=[") && e.text.ends_with("-> 0") {
                    // key = protocol (4 bytes) + source port (4 bytes, native order), printed as hex bytes
                    let inner = e.text["user remove audit_map key=[".len()..].split(']').next().unwrap_or("");
                    let bytes: Vec<u8> = inner.split(',').filter_map(|x| u8::from_str_radix(x.trim(), 16).ok()).collect();
                    if bytes.len() == 8 {
                        let port = u32::from_ne_bytes([bytes[4], bytes[5], bytes[6], bytes[7]]) as u16;
                        removes.push((e.seq, port));
                        remove_attempts.push((e.seq, port, task_of(&e.text)));
                    }
                }
            }
        });
        AuditTrace { connect_seq, removes, lookups, found_lookups, remove_attempts }
    }
    /// Had some earlier connection from `port` not yet been looked up by the proxy when connection `conn` was opened?
    /// `earlier` = how many client connections from that port reached the listener before `conn` (each gets exactly one
    /// lookup by its own per-connection task). This is the situation of the listed finding: the proxy consumes records
    /// in a task spawned after accept, keyed by source port only, so an outstanding lookup can take the record of the
    /// next connection on that port (or the next connection finds the record of the previous one).
    pub fn lookup_outstanding_at(&self, port: u16, conn: u64, earlier: usize) -> bool {
        match self.connect_seq.get(&conn) {
            Some(at) => {
                let n = |v: &Vec<(u64, u16)>| v.iter().filter(|(s, p)| *p == port && s < at).count();
                // an earlier connection has not been looked up yet, or was looked up but its task has not removed the
                // record yet (lookup and removal are two steps of that task)
                if n(&self.lookups) < earlier {
                    return true;
                }
                // pair every lookup that found a record with the removal attempt that follows it (same task, next
                // step); the window counts only if that removal does come - a record that its task never removes is not
                // this transient
                for (ls, _, lt) in self.found_lookups.iter().filter(|(_, p, _)| *p == port) {
                    // the removal by the same task that follows this lookup
                    if let Some((rs, _, _)) = self.remove_attempts.iter().find(|(rs, p, rt)| *p == port && rt == lt && rs > ls) {
                        if ls < at && rs > at {
                            return true;
                        }
                    }
                }
                false
            }
            None => false,
        }
    }
    /// was the record of `port` removed after connection `from` was opened and before connection `to` was opened?
    pub fn consumed_between(&self, port: u16, from: u64, to: u64) -> bool {
        match (self.connect_seq.get(&from), self.connect_seq.get(&to)) {
            (Some(a), Some(b)) => self.removes.iter().any(|(s, p)| *p == port && s > a && s < b),
            _ => false,
        }
    }
}

pub fn check_proxy(run: &mut Run) {
    let plan = run.plan.clone();
    let enabled: Vec<String> = plan["oracles"].as_array().map(|a| a.iter().filter_map(|x| x.as_str().map(|s| s.to_string())).collect()).unwrap_or_default();
    let on = |id: &str| enabled.iter().any(|x| x == id);
    let hosts_arc = run.hosts.clone();
    let h = hosts_arc.lock().unwrap();
    let mut by_tok: BTreeMap<String, Vec<&Recv>> = BTreeMap::new();
    for r in h.log.iter() {
        if let Some(t) = &r.token {
            by_tok.entry(t.clone()).or_default().push(r);
        }
    }
    let faults_flowing = plan["faulty"].as_bool().unwrap_or(false);
    let conns = run.conns.clone();
    let phases = run.phases.clone();
    let audit_trace = AuditTrace::from_events();
    let all_infos = vrt::net::conn_infos();
    let faulted_upstream: Vec<vrt::net::ConnInfo> = vrt::net::conn_infos().into_iter().filter(|ci| ci.initiator.tgid == vrt::procs::AGENT_PID && !ci.faults.is_empty()).collect();
    let mut viol: Vec<(String, String, String)> = Vec::new();
    let mut stats: BTreeMap<String, i64> = BTreeMap::new();
    macro_rules! bump {
        ($k:expr) => {
            *stats.entry($k.to_string()).or_insert(0) += 1
        };
    }
    let mut known_tokens: BTreeMap<String, ()> = BTreeMap::new();
    let mut guids_per_phase: BTreeMap<usize, std::collections::BTreeSet<String>> = BTreeMap::new();

    for (pi, cp, cr) in conns.iter() {
        let phase = &phases[*pi];
        let caller = crate::world::caller_of(&plan, cp.proc);
        let direct = cp.dst_name == "direct";
        let injected_self = cp.dst_name == "self";
        for rq in cp.reqs.iter() {
            known_tokens.insert(rq.tok.clone(), ());
        }
        // a connection that the kernel did not divert and that was not aimed at the listener never reached
        // the proxy: nothing to judge
        if cr.connected && !cr.redirected && cp.dst != hosts::PROXY {
            continue;
        }
        if !cr.connected {
            continue;
        }
        // the destination the kernel recorded for the connection (what the agent must judge)
        let recorded_dst = match &cp.inject { Some(d) => d.clone(), None => cp.dst.clone() };
        let protected = [hosts::WIRE, hosts::GA, hosts::IMDS].contains(&cp.dst.as_str());
        let mut conn_disturbed = false;
        // the listed C07 finding shows in these checks too: a connection that reuses the source port of a client that
        // vanished before the proxy consumed its record is evaluated with that record (or loses its own record to it)
        let earlier_on_port = all_infos.iter().filter(|ci| ci.src.port() == cr.src_port && ci.id < cr.conn_id && ci.accepted && ci.actual_dst.to_string() == hosts::PROXY && ci.initiator.tgid != vrt::procs::AGENT_PID).count();
        let known_race = earlier_on_port > 0 && audit_trace.lookup_outstanding_at(cr.src_port, cr.conn_id, earlier_on_port);
        let race_tag = if known_race { " [source port reused after a client vanished before the proxy consumed its record]" } else { "" };
        for (ri, rq) in cp.reqs.iter().enumerate() {
            known_tokens.insert(rq.tok.clone(), ());
            let res = cr.results.get(ri);
            let recvs: Vec<&Recv> = by_tok.get(&rq.tok).cloned().unwrap_or_default();
            let relayed = !recvs.is_empty();
            let status = res.and_then(|r| r.resp.as_ref()).map(|m| m.status());
            let (path, _q) = hosts::split_target(&rq.target);
            let traversal = path.contains("..");
            let provision = rq.target == "/provision";
            let declared: Option<usize> = if rq.declared_only { rq.headers.iter().find(|(n, _)| n.eq_ignore_ascii_case("content-length")).and_then(|(_, v)| String::from_utf8_lossy(v).trim().parse().ok()) } else { None };
            let body_len = declared.unwrap_or(rq.body.len());
            let exempt = is_exempt(&rq.method, &rq.target);
            let limit = if exempt { LARGE_LIMIT } else { LOW_LIMIT };
            let too_large = body_len > limit;
            // not an HTTP request at all (the request line does not start with a method token): 400, never relayed
            let malformed = !rq.method.bytes().all(|b| b.is_ascii_alphabetic()) || rq.method.is_empty();
            // reference outcome(s): against the document in force, and the previous one during a transition
            let mut outcomes = vec![rbac::endpoint_outcome(&phase.doc, &recorded_dst, &caller, &rq.target)];
            for pd in phase.prev_docs.iter() {
                outcomes.push(rbac::endpoint_outcome(pd, &recorded_dst, &caller, &rq.target));
            }
            let may_relay = outcomes.iter().any(|o| matches!(o, Outcome::Relay | Outcome::RelayAudit | Outcome::Either));
            let must_forbid = outcomes.iter().all(|o| *o == Outcome::Forbid);
            let attributed = (cr.redirected && protected) || cp.inject.is_some();
            if relayed {
                bump!("relayed");
            }
            // faults that hit THIS request: a scripted host fault applied to it, or a connection-level fault on an upstream
            // connection the agent opened towards this request's destination while the request was outstanding. Only the
            // client-facing expectations of such a request are relaxed (it may get a 5xx, a truncated answer or none);
            // everything judged at the host side stays strict.
            let host_fault = h.faulted_tokens.get(&rq.tok).cloned();
            let t_lo = res.map(|r| r.t_sent_ns).unwrap_or(u64::MAX);
            let t_hi = res.and_then(|r| r.resp.as_ref().map(|_| r.t_resp_ns)).unwrap_or(u64::MAX);
            let net_faulted = res.map(|r| r.sent).unwrap_or(false) && faulted_upstream.iter().any(|ci| ci.actual_dst.to_string() == recorded_dst && ci.opened_ns >= t_lo.min(cr.t_connect_ns) && ci.opened_ns <= t_hi);
            // the proxy keeps one upstream connection per client connection: once it was hit, later requests on the same
            // client connection may meet the dead upstream connection
            let disturbed = conn_disturbed || net_faulted || matches!(host_fault, Some(HostFault::ResetBefore) | Some(HostFault::ResetAfter) | Some(HostFault::CutResponse(_)));
            conn_disturbed = disturbed;
            if disturbed {
                bump!("fault.request_disturbed_by_upstream_fault");
            }
            let faults_flowing = faults_flowing || disturbed;
            if recvs.len() > 1 {
                viol.push(("C14".into(), "request relayed more than once".into(), format!("tok={} seen {} times at hosts", rq.tok, recvs.len())));
            }

            // ---------------- C01 complete mediation
            if on("C01") {
                if relayed {
                    if !attributed {
                        viol.push(("C01".into(), format!("relayed without attribution{}", race_tag), format!("tok={} dst={} {} {} reached {}", rq.tok, cp.dst_name, rq.method, rq.target, recvs[0].host)));
                    }
                    if traversal {
                        viol.push(("C01".into(), "traversal path relayed".into(), format!("tok={} {}", rq.tok, rq.target)));
                    }
                    if must_forbid {
                        viol.push(("C01".into(), format!("relayed although the policy in force forbids{}", if attributed { "" } else { race_tag }), format!("tok={} dst={} caller={:?} {} {}", rq.tok, recorded_dst, caller, rq.method, rq.target)));
                    }
                    if provision {
                        viol.push(("C01".into(), "/provision relayed".into(), rq.tok.clone()));
                    }
                } else if let Some(st) = status {
                    // refused: the status must belong to a reason that holds
                    if !provision {
                        let mut ok_codes: Vec<u16> = Vec::new();
                        if traversal {
                            ok_codes.push(404);
                        }
                        if !attributed {
                            ok_codes.push(421);
                        }
                        if attributed && outcomes.iter().any(|o| matches!(o, Outcome::Forbid | Outcome::Either)) {
                            ok_codes.push(403);
                        }
                        if too_large {
                            ok_codes.extend([413, 400]);
                        }
                        if malformed {
                            ok_codes.push(400);
                        }
                        if ok_codes.is_empty() && !faults_flowing {
                            viol.push(("C14".into(), format!("authorised request not relayed{}", if st == 421 { race_tag } else { "" }), format!("tok={} dst={} status={} {} {}", rq.tok, cp.dst_name, st, rq.method, rq.target)));
                        } else if !ok_codes.is_empty() && !ok_codes.contains(&st) && !(faults_flowing && st >= 500) {
                            viol.push(("C01".into(), "refusal status does not match any reason that holds".into(), format!("tok={} status={} acceptable={:?} {} {}", rq.tok, st, ok_codes, rq.method, rq.target)));
                        }
                        bump!("refused");
                    }
                } else if !faults_flowing && res.map(|r| r.sent).unwrap_or(false) && cp.close == "normal" {
                    // HTTP lets a server close a connection after any response (and it must when it did not
                    // read the previous request's body), so only the first request on a connection is owed one
                    if ri == 0 {
                        viol.push(("C13".into(), "request got no HTTP response".into(), format!("tok={} err={:?}", rq.tok, res.and_then(|r| r.err.clone()))));
                    } else {
                        bump!("followup_without_response");
                    }
                }
            }

            // ---------------- C02 decision equals the declared semantics (observed end to end)
            if on("C02") && attributed && !traversal && !too_large && !provision && phase.prev_docs.is_empty() {
                if let Some(st) = status {
                    let exp = outcomes[0];
                    let dup = {
                        let mut d2 = phase.doc.clone();
                        let mut any = false;
                        for ep in ["imds", "wireserver", "hostga"] {
                            if d2["authorizationRules"][ep].is_object() && rbac::has_duplicate_names(&d2["authorizationRules"][ep]) {
                                any = true;
                                d2["authorizationRules"][ep] = rbac::collapse_last(&d2["authorizationRules"][ep]);
                            }
                        }
                        let o2 = rbac::endpoint_outcome(&d2, &recorded_dst, &caller, &rq.target);
                        let agrees = (matches!(o2, Outcome::Forbid) && !relayed) || (matches!(o2, Outcome::Relay | Outcome::RelayAudit) && relayed);
                        if any && agrees { " [explained by: of entries sharing a name only the last is kept]" } else { "" }
                    };
                    match exp {
                        Outcome::Forbid if relayed => viol.push(("C02".into(), format!("allowed although the declared semantics deny{}", dup), format!("tok={} dst={} caller={:?} GET {} status={}", rq.tok, cp.dst_name, caller, rq.target, st))),
                        Outcome::Relay | Outcome::RelayAudit if !relayed && st == 403 => viol.push(("C02".into(), format!("denied although the declared semantics allow{}", dup), format!("tok={} dst={} caller={:?} GET {} status={}", rq.tok, cp.dst_name, caller, rq.target, st))),
                        _ => {}
                    }
                    bump!("c02.e2e_decisions");
                    if exp == Outcome::Forbid { bump!("c02.e2e_deny"); }
                }
            }

            // ---------------- C07 the identity used on a connection is the one recorded for that connection
            if on("C07") {
                // was the source port used, in this phase, by a client that vanished (no request, or abortive
                // close) so that its record may not have been consumed when the port was reused?
                // ... AND that record was still in the map when this connection was opened (the listed finding is about a
                // record that outlives its vanished connection until the port is reused; a record that had been consumed
                // before the reuse cannot explain anything)
                let vanished_peer = known_race;
                let tag = if vanished_peer { " [source port reused after a client vanished before the proxy consumed its record]" } else { "" };
                if relayed && !attributed {
                    viol.push(("C07".into(), format!("unattributed connection evaluated with another connection's record{}", tag), format!("tok={} port={} dst={}", rq.tok, cr.src_port, cp.dst_name)));
                }
                for rv in recvs.iter() {
                    let claims = rv.msg.head.get_all("x-ms-azure-host-claims");
                    let want = format!("{{ \"isRoot\": \"{}\"}}", caller.elevated);
                    if attributed && claims.len() == 1 && claims[0].as_slice() != want.as_bytes() {
                        viol.push(("C07".into(), format!("request evaluated with the identity of a different connection{}", tag), format!("tok={} port={} got={:?} want={:?}", rq.tok, cr.src_port, String::from_utf8_lossy(claims[0]), want)));
                    }
                    if attributed && rv.host != recorded_dst {
                        viol.push(("C07".into(), format!("request sent to the destination recorded for a different connection{}", tag), format!("tok={} port={} went to {} recorded {}", rq.tok, cr.src_port, rv.host, recorded_dst)));
                    }
                }
                if attributed && !relayed && status == Some(421) {
                    viol.push(("C07".into(), format!("attributed connection treated as unattributed{}", tag), format!("tok={} port={} dst={}", rq.tok, cr.src_port, cp.dst_name)));
                }
                bump!("c07.requests_checked");
                if vanished_peer { bump!("c07.port_reused_after_vanish"); }
            }

            // ---------------- C03 root-only endpoints, no self-proxying
            if on("C03") {
                if (recorded_dst == hosts::WIRE || recorded_dst == hosts::GA) && !caller.elevated {
                    bump!("c03.nonroot_protected");
                    if relayed {
                        viol.push(("C03".into(), "non-elevated request to root-only endpoint relayed".into(), format!("tok={} dst={} {}", rq.tok, cp.dst_name, rq.target)));
                    } else if attributed && !traversal && !too_large {
                        if let Some(st) = status {
                            // (right after start the redirector has filled the kernel's policy map but not yet published its
                            // map object inside the agent: the connection is diverted, the proxy cannot look its record up,
                            // treats it as unattributed and answers 421 - also a refusal)
                            let before_redirector = st == 421 && plan["variant"] == "unsettled" && cr.t_connect_ns < 5_000_000_000;
                            if st != 403 && !(faults_flowing && st >= 500) && !before_redirector {
                                viol.push(("C03".into(), "non-elevated request to root-only endpoint not answered 403".into(), format!("tok={} status={}", rq.tok, st)));
                            }
                        }
                    }
                }
                // whatever the proxy believed about the connection: a request of a non-elevated process never arrives at a
                // root-only endpoint
                if !caller.elevated {
                    for rv in recvs.iter() {
                        if (rv.host == hosts::WIRE || rv.host == hosts::GA) && !(recorded_dst == hosts::WIRE || recorded_dst == hosts::GA) {
                            viol.push(("C03".into(), format!("non-elevated caller's request reached a root-only endpoint{}", race_tag), format!("tok={} dst={} reached {} {}", rq.tok, cp.dst_name, rv.host, rq.target)));
                        }
                    }
                }
                if injected_self {
                    bump!("c03.self_dst");
                    if relayed {
                        viol.push(("C03".into(), "request recorded for the proxy's own address relayed".into(), rq.tok.clone()));
                    } else if let Some(st) = status {
                        // (right after start the redirector has not published its map object yet: the proxy cannot look
                        // any record up, treats the connection as unattributed and answers 421 - also a refusal)
                        let before_redirector = st == 421 && plan["variant"] == "unsettled" && cr.t_connect_ns < 5_000_000_000;
                        if st != 403 && !traversal && !provision && !before_redirector {
                            viol.push(("C03".into(), "self-destination not refused with 403".into(), format!("tok={} status={}", rq.tok, st)));
                        }
                    }
                }
                if caller.elevated && !injected_self && attributed && !traversal && !too_large && !malformed && !faults_flowing && outcomes.iter().all(|o| matches!(o, Outcome::Relay | Outcome::RelayAudit)) && !relayed && !provision && status.is_some() {
                    viol.push(("C14".into(), "authorised elevated request not relayed".into(), format!("tok={} status={:?}", rq.tok, status)));
                }
            }

            // ---------------- what the host received
            for rv in recvs.iter() {
                let m = &rv.msg;
                // C04 / C10 signature
                if on("C04") || on("C10") {
                    let key_expected = phase.latched_guid.is_some() && phase.prev_docs.is_empty() && doc_enabled(&phase.doc);
                    // a request the proxy does not sign (no key latched, exempt upload) carries whatever authorization header
                    // its client supplied: that value is the client's, not the proxy's, and is not judged
                    let client_supplied_auth = rq.headers.iter().any(|(n, _)| n.eq_ignore_ascii_case("x-ms-azure-host-authorization"));
                    let sig_owned_by_client = client_supplied_auth && (!key_expected || exempt);
                    let not_judged = SigCheck::NotJudged("client-supplied authorization header on a request the proxy does not sign".into());
                    let judged_sig = if sig_owned_by_client && matches!(rv.sig, SigCheck::Invalid { .. } | SigCheck::Malformed(_)) {
                        bump!("sig.client_supplied_on_unsigned_request");
                        &not_judged
                    } else {
                        &rv.sig
                    };
                    match judged_sig {
                        SigCheck::Valid { guid, .. } => {
                            bump!("sig.valid");
                            guids_per_phase.entry(*pi).or_default().insert(guid.clone());
                            if on("C04") && key_expected && Some(guid) != phase.latched_guid.as_ref() && !plan["rotating"].as_bool().unwrap_or(false) {
                                viol.push(("C04".into(), "signed with a key other than the latched one".into(), format!("tok={} guid={} latched={:?}", rq.tok, guid, phase.latched_guid)));
                            }
                        }
                        SigCheck::Invalid { guid, why } => {
                            if why.starts_with("key id and MAC name different keys") {
                                if on("C10") || on("C04") {
                                    viol.push(("C10".into(), "authorization header pairs the id of one key with a MAC computed under another".into(), format!("tok={} header names {}; {}: {} {}", rq.tok, guid, why, m.method(), m.target())));
                                }
                                if on("C04") {
                                    // ... which also means the host cannot recompute and accept it
                                    viol.push(("C04".into(), "authorization header does not verify under the key it names".into(), format!("tok={} header names {}; {}: {} {}", rq.tok, guid, why, m.method(), m.target())));
                                }
                            } else if on("C04") || on("C10") {
                                viol.push(("C04".into(), "authorization header does not verify".into(), format!("tok={} guid={} {}: {} {}", rq.tok, guid, why, m.method(), m.target())));
                                if on("C10") && !why.starts_with("unknown key id") {
                                    // the header names a key the host issued, and the MAC was not produced by that key
                                    viol.push(("C10".into(), "the MAC was not produced by the key the header names".into(), format!("tok={} guid={} {}: {} {}", rq.tok, guid, why, m.method(), m.target())));
                                }
                            }
                        }
                        SigCheck::Malformed(w) => {
                            if on("C04") {
                                viol.push(("C04".into(), "malformed authorization at host".into(), format!("tok={} {}", rq.tok, w)));
                            }
                        }
                        SigCheck::NotJudged(_) => bump!("sig.not_judged"),
                        SigCheck::None => {
                            if on("C04") && key_expected && !exempt {
                                viol.push(("C04".into(), "relayed unsigned while a key is latched".into(), format!("tok={} {} {}", rq.tok, m.method(), m.target())));
                            }
                        }
                    }
                }
                // C05 proxy-owned headers
                if on("C05") {
                    let claims = m.head.get_all("x-ms-azure-host-claims");
                    let want = format!("{{ \"isRoot\": \"{}\"}}", caller.elevated);
                    if claims.len() != 1 {
                        viol.push(("C05".into(), "host did not see exactly one claims header".into(), format!("tok={} count={}", rq.tok, claims.len())));
                    } else if claims[0].as_slice() != want.as_bytes() {
                        viol.push(("C05".into(), "claims header does not state the attributed caller's elevation".into(), format!("tok={} got={:?} want={:?}", rq.tok, String::from_utf8_lossy(claims[0]), want)));
                    }
                    let dates = m.head.get_all("x-ms-azure-host-date");
                    if dates.len() != 1 {
                        viol.push(("C05".into(), "host did not see exactly one date header".into(), format!("tok={} count={}", rq.tok, dates.len())));
                    } else {
                        let ds = String::from_utf8_lossy(dates[0]).to_string();
                        match parse_rfc1123(&ds) {
                            None => viol.push(("C05".into(), "date header is not RFC 1123".into(), format!("tok={} {:?}", rq.tok, ds))),
                            Some(secs) => {
                                let lo = res.map(|r| r.wall_sent_ns).unwrap_or(0) / 1_000_000_000 - 1;
                                let hi = rv.wall_recv_ns / 1_000_000_000 + 1;
                                if (secs as i128) < lo || (secs as i128) > hi {
                                    viol.push(("C05".into(), "date header is not the proxy's current time".into(), format!("tok={} date={} window=[{},{}]", rq.tok, secs, lo, hi)));
                                }
                            }
                        }
                    }
                    // none of the client's values for the proxy-owned names
                    for (n, v) in &rq.headers {
                        let ln = n.to_ascii_lowercase();
                        if ln == "x-ms-azure-host-claims" || ln == "x-ms-azure-host-date" {
                            // a client value that happens to equal what the proxy itself produces (the true elevation; the
                            // proxy's current second) is indistinguishable from the proxy's own header and is not a leak
                            let equals_own_date = ln == "x-ms-azure-host-date" && {
                                let lo = res.map(|r| r.wall_sent_ns).unwrap_or(0) / 1_000_000_000 - 1;
                                let hi = rv.wall_recv_ns / 1_000_000_000 + 1;
                                parse_rfc1123(&String::from_utf8_lossy(v)).map(|s| (s as i128) >= lo && (s as i128) <= hi).unwrap_or(false)
                            };
                            if m.head.get_all(&ln).iter().any(|x| x.as_slice() == v.as_slice()) && !(ln == "x-ms-azure-host-claims" && v.as_slice() == want.as_bytes()) && !equals_own_date {
                                viol.push(("C05".into(), "client-supplied proxy-owned header value reached the host".into(), format!("tok={} {}: {:?}", rq.tok, ln, String::from_utf8_lossy(v))));
                            }
                        }
                        if ln == "x-ms-azure-host-authorization" {
                            let signed = matches!(rv.sig, SigCheck::Valid { .. } | SigCheck::Invalid { .. } | SigCheck::Malformed(_));
                            let key_latched = phase.latched_guid.is_some() && phase.prev_docs.is_empty() && doc_enabled(&phase.doc);
                            if key_latched && !exempt && m.head.get_all(&ln).iter().any(|x| x.as_slice() == v.as_slice()) {
                                viol.push(("C05".into(), "client-supplied authorization header reached the host on a signed request".into(), format!("tok={} signed={}", rq.tok, signed)));
                            }
                        }
                    }
                    if m.head.count("x-ms-azure-host-authorization") > 1 && phase.latched_guid.is_some() && phase.prev_docs.is_empty() && doc_enabled(&phase.doc) && !exempt {
                        viol.push(("C05".into(), "more than one authorization header at the host".into(), rq.tok.clone()));
                    }
                    bump!("c05.checked");
                }
                // C14 host side transparency
                if on("C14") {
                    if m.method() != rq.method {
                        viol.push(("C14".into(), "method changed".into(), format!("tok={} {} -> {}", rq.tok, rq.method, m.method())));
                    }
                    let want_t = if rq.target.starts_with("http://") { let (p, q) = hosts::split_target(&rq.target); if q.is_empty() { p } else { format!("{}?{}", p, q) } } else { rq.target.clone() };
                    if m.target() != want_t && m.target() != rq.target {
                        viol.push(("C14".into(), "request target changed".into(), format!("tok={} {:?} -> {:?}", rq.tok, rq.target, m.target())));
                    }
                    if m.body != rq.body {
                        viol.push(("C14".into(), "request body changed".into(), format!("tok={} len {} -> {}", rq.tok, rq.body.len(), m.body.len())));
                    }
                    let mut pool: Vec<(String, Vec<u8>)> = m.head.headers.iter().map(|(n, v)| (n.to_ascii_lowercase(), v.clone())).collect();
                    for (n, v) in &rq.headers {
                        let ln = n.to_ascii_lowercase();
                        if is_proxy_owned(&ln) || is_framing_or_hop(&ln) {
                            continue;
                        }
                        let tv = trim_ows(v);
                        match pool.iter().position(|(pn, pv)| *pn == ln && pv.as_slice() == tv) {
                            Some(i) => {
                                pool.remove(i);
                            }
                            None => viol.push(("C14".into(), "client header missing or altered at host".into(), format!("tok={} {}: {:?}", rq.tok, ln, String::from_utf8_lossy(v)))),
                        }
                    }
                    bump!("c14.host_checked");
                }
                // C15: nothing above the limit may arrive; a body within the limit arrives intact
                if on("C15") && too_large {
                    viol.push(("C15".into(), "body above the limit relayed".into(), format!("tok={} len={} limit={}", rq.tok, body_len, limit)));
                }
                if on("C15") && !too_large && !rq.declared_only && m.body != rq.body {
                    viol.push(("C15".into(), "body within the limit not relayed intact".into(), format!("tok={} len {} -> {} (limit {})", rq.tok, rq.body.len(), m.body.len(), limit)));
                }
            }

            // ---------------- C15 refusal status
            if on("C15") {
                if too_large && !relayed {
                    // byte level: nothing of an over-limit body goes upstream, not even as an unfinished request. Upstream
                    // connections the agent opened towards this request's destination while it was outstanding and that
                    // never carried a complete request must not have carried more than a request head
                    let t_lo = cr.t_connect_ns;
                    let t_hi = res.and_then(|r| r.resp.as_ref().map(|_| r.t_resp_ns)).unwrap_or(u64::MAX);
                    let complete: std::collections::BTreeSet<u64> = h.log.iter().map(|r| r.conn).collect();
                    for ci in all_infos.iter() {
                        if ci.initiator.tgid == vrt::procs::AGENT_PID && ci.actual_dst.to_string() == recorded_dst && ci.opened_ns >= t_lo && ci.opened_ns <= t_hi && !complete.contains(&ci.id) && ci.bytes_out > 64 * 1024 && ci.faults.is_empty() {
                            viol.push(("C15".into(), "part of an over-limit body sent upstream".into(), format!("tok={} len={} limit={}: upstream connection {} to {} carried {} bytes and no complete request", rq.tok, body_len, limit, ci.id, ci.actual_dst, ci.bytes_out)));
                        }
                    }
                }
                if too_large {
                    bump!("c15.over");
                    if let Some(st) = status {
                        if !(400..500).contains(&st) {
                            viol.push(("C15".into(), "over-limit body not answered with 4xx".into(), format!("tok={} len={} status={}", rq.tok, body_len, st)));
                        }
                    }
                } else if attributed && !traversal && !provision && outcomes.iter().all(|o| matches!(o, Outcome::Relay | Outcome::RelayAudit)) && !faults_flowing && status.is_some() {
                    bump!("c15.within");
                    if !relayed {
                        viol.push(("C15".into(), "body within the limit not relayed".into(), format!("tok={} len={} limit={} status={:?}", rq.tok, body_len, limit, status)));
                    }
                }
            }

            // ---------------- C14 under a cut answer: a truncated body is never presented as a complete response
            if on("C14") && relayed {
                if let (Some(HostFault::CutResponse(_)), Some((place, _)), Some(m)) = (&host_fault, h.cut_places.get(&rq.tok), res.and_then(|r| r.resp.as_ref())) {
                    let spec = h.resp_specs.get(&rq.tok);
                    let close_delimited = spec.map(|s| s.close_delimited).unwrap_or(false);
                    let spec_status = spec.map(|s| s.status).unwrap_or(200);
                    let intended: Option<Vec<u8>> = match spec {
                        Some(s) => Some(s.body.clone()),
                        None => recvs.first().map(|rv| format!("echo {} {} tok={}", rv.msg.method(), rv.msg.target(), rq.tok).into_bytes()),
                    };
                    let bodyless = rq.method == "HEAD" || spec_status == 204 || spec_status == 304;
                    if *place == "body" {
                        bump!("fault.answer_cut_mid_body");
                    }
                    // the client parsed a complete response carrying the host's status although the host's body was cut
                    // ... and the head it parsed is the host's own (an error answer made up by the proxy can carry the same
                    // status): one of the host's distinctive headers came through, or it is the plain 200 echo
                    let head_from_host = match spec {
                        None => m.status() == 200,
                        Some(s) => s.headers.iter().any(|(n, v)| {
                            let ln = n.to_ascii_lowercase();
                            (ln.starts_with("x-resp") || ln == "etag") && m.head.get_all(&ln).iter().any(|x| x.as_slice() == trim_ows(v))
                        }),
                    };
                    if *place == "body" && !close_delimited && !bodyless && m.status() == spec_status && !m.until_close && head_from_host && !net_faulted {
                        if let Some(want) = intended {
                            bump!("c14.cut_in_body_complete_at_client");
                            if m.body != want {
                                viol.push(("C14".into(), "truncated response body presented to the client as a complete response".into(), format!("tok={} host body {} bytes, cut mid-body; client parsed a complete {} response with {} body bytes", rq.tok, want.len(), m.status(), m.body.len())));
                            }
                        }
                    }
                }
            }

            // ---------------- C14 client side transparency
            if on("C14") && relayed && !faults_flowing {
                if let Some(HostFault::Status(s)) = &host_fault {
                    // an error status produced by the host is relayed as it is
                    if let Some(m) = res.and_then(|r| r.resp.as_ref()) {
                        if m.status() != *s {
                            viol.push(("C14".into(), "status changed".into(), format!("tok={} host answered {} (injected), client received {}", rq.tok, s, m.status())));
                        }
                        bump!("c14.error_status_relayed");
                    }
                }
                let spec = if host_fault.is_some() && !matches!(host_fault, Some(HostFault::Stall(_))) { None } else { h.resp_specs.get(&rq.tok) };
                let spec_absent_by_fault = spec.is_none() && h.resp_specs.contains_key(&rq.tok);
                if let (Some(spec), Some(r)) = (spec, res) {
                    if spec.cut_after.is_none() {
                        match &r.resp {
                            None => viol.push(("C14".into(), "no response for a relayed request".into(), format!("tok={} err={:?}", rq.tok, r.err))),
                            Some(m) => {
                                if m.status() != spec.status {
                                    viol.push(("C14".into(), "status changed".into(), format!("tok={} {} -> {}", rq.tok, spec.status, m.status())));
                                }
                                let want_body: &[u8] = if rq.method == "HEAD" || spec.status == 204 || spec.status == 304 { &[] } else { &spec.body };
                                if m.body != want_body {
                                    viol.push(("C14".into(), "response body changed".into(), format!("tok={} len {} -> {}", rq.tok, want_body.len(), m.body.len())));
                                }
                                let mut pool: Vec<(String, Vec<u8>)> = m.head.headers.iter().map(|(n, v)| (n.to_ascii_lowercase(), v.clone())).collect();
                                for (n, v) in &spec.headers {
                                    let ln = n.to_ascii_lowercase();
                                    if is_framing_or_hop(&ln) || ln == "date" {
                                        continue;
                                    }
                                    let tv = trim_ows(v);
                                    match pool.iter().position(|(pn, pv)| *pn == ln && pv.as_slice() == tv) {
                                        Some(i) => {
                                            pool.remove(i);
                                        }
                                        None => viol.push(("C14".into(), "host header missing or altered at client".into(), format!("tok={} {}: {:?}", rq.tok, ln, String::from_utf8_lossy(v)))),
                                    }
                                }
                                // what is left must be the marker, framing or Date
                                let mut marker = 0;
                                for (pn, pv) in pool.iter() {
                                    if pn == "x-ms-azure-host-authorization" {
                                        marker += 1;
                                        continue;
                                    }
                                    if is_framing_or_hop(pn) || pn == "date" {
                                        continue;
                                    }
                                    viol.push(("C14".into(), "header added to the response".into(), format!("tok={} {}: {:?}", rq.tok, pn, String::from_utf8_lossy(pv))));
                                }
                                if marker != 1 && !spec.headers.iter().any(|(n, _)| n.eq_ignore_ascii_case("x-ms-azure-host-authorization")) {
                                    viol.push(("C14".into(), "marker header count".into(), format!("tok={} count={}", rq.tok, marker)));
                                }
                                bump!("c14.client_checked");
                            }
                        }
                    }
                }
                // response i carries the token of request i: the default echo body names the token
                if spec.is_none() && !spec_absent_by_fault && !matches!(host_fault, Some(HostFault::Status(_))) {
                    if let Some(m) = res.and_then(|r| r.resp.as_ref()) {
                        if m.status() == 200 && rq.method != "HEAD" && !String::from_utf8_lossy(&m.body).ends_with(&format!("tok={}", rq.tok)) {
                            viol.push(("C14".into(), "response does not belong to this request".into(), format!("tok={} body={:?}", rq.tok, String::from_utf8_lossy(&m.body[..m.body.len().min(80)]))));
                        }
                    }
                }
            }
            let _ = ri;
            // the host closed the upstream connection after answering this request (scripted): the proxy keeps one
            // upstream connection per client connection, so what follows on this client connection meets a dead one
            if h.resp_specs.get(&rq.tok).map(|s| s.close_after || s.close_delimited).unwrap_or(false) {
                conn_disturbed = true;
            }
        }
    }

    for (_p, g) in guids_per_phase.iter() {
        if g.len() > 1 {
            bump!("probe.phases_signed_under_two_keys");
        }
    }
    // ---------------- every tagged request at a host must come from a known client request
    for r in h.log.iter() {
        if let Some(t) = &r.token {
            if !known_tokens.contains_key(t) {
                viol.push(("C01".into(), "host received a tagged request nobody sent".into(), t.clone()));
            }
        }
    }
    // ---------------- byte level: an upstream connection that carried bytes must show a complete request
    if on("C01") && !faults_flowing {
        let with_req: std::collections::BTreeSet<u64> = h.log.iter().map(|r| r.conn).collect();
        let now = vrt::time::now_ns();
        for ci in vrt::net::conn_infos() {
            // a call of the agent's own that is still in flight when the run stops is not judged
            if now.saturating_sub(ci.opened_ns) < 2_500_000_000 {
                continue;
            }
            // a connection cut by an injected connection-level fault may have carried part of a request
            if !ci.faults.is_empty() {
                continue;
            }
            if ci.initiator.tgid == vrt::procs::AGENT_PID && ci.bytes_out > 0 && !with_req.contains(&ci.id) {
                viol.push(("C01".into(), "bytes sent upstream that are not a complete, accounted request".into(), format!("conn={} dst={} bytes={}", ci.id, ci.actual_dst, ci.bytes_out)));
            }
        }
    }
    // ---------------- the agent's own calls: whatever carries an authorization header must verify (C04/C10)
    if on("C04") || on("C10") {
        for r in h.log.iter().filter(|r| r.token.is_none()) {
            match &r.sig {
                SigCheck::Invalid { guid, why } => {
                    if why.starts_with("key id and MAC name different keys") {
                        viol.push(("C10".into(), "agent's own call pairs the id of one key with a MAC computed under another".into(), format!("{} {} header names {}; {}", r.kind, r.msg.target(), guid, why)));
                    } else {
                        viol.push(("C04".into(), "agent's own call carries an authorization header that does not verify".into(), format!("{} {} guid={} {}", r.kind, r.msg.target(), guid, why)));
                        if on("C10") && !why.starts_with("unknown key id") {
                            viol.push(("C10".into(), "agent's own call: the MAC was not produced by the key the header names".into(), format!("{} {} guid={} {}", r.kind, r.msg.target(), guid, why)));
                        }
                    }
                }
                SigCheck::Malformed(w) => viol.push(("C04".into(), "agent's own call: malformed authorization".into(), format!("{} {}", r.kind, w))),
                SigCheck::None => {
                    if r.kind == "attest" {
                        viol.push(("C04".into(), "attestation request unsigned".into(), r.msg.target().to_string()));
                    }
                }
                SigCheck::Valid { .. } => bump!("sig.own_valid"),
                SigCheck::NotJudged(_) => {}
            }
        }
    }
    drop(h);
    if on("C07") {
        for (name, _t, v) in run.observations.iter() {
            if name == "audit_map_len" && v.as_u64().unwrap_or(0) != 0 {
                // (the listed finding about port reuse after a vanished client never leaves a record behind - each accepted
                // connection consumes whatever record its port has - so a leftover record is never explained by it)
                viol.push(("C07".into(), "attribution record left unconsumed after its connection was accepted".into(), format!("{} record(s) in the audit map at a quiescent point", v)));
            }
        }
    }
    if on("C11") {
        check_c11(run, &plan, &mut viol, &mut stats);
    }
    for (k, v) in stats {
        run.stat(&k, v);
    }
    for (p, c, d) in viol {
        run.violate(&p, &c, d);
    }
}

/// does the status document ask for a secure channel (so that the agent is expected to hold and use a key)?
/// Mirrors the protocol description, not the implementation: version 2.0 -> secureChannelEnabled and rules
/// present; version 1.0 -> secureChannelState other than "disabled".
pub fn doc_enabled(doc: &Value) -> bool {
    if doc["version"] == "2.0" {
        doc["secureChannelEnabled"] == true && doc["authorizationRules"].is_object()
    } else {
        doc["secureChannelState"].as_str().map(|s| s.to_lowercase() != "disabled").unwrap_or(false)
    }
}

fn trim_ows(v: &[u8]) -> &[u8] {
    let mut a = 0;
    let mut b = v.len();
    while a < b && (v[a] == b' ' || v[a] == b'\t') {
        a += 1;
    }
    while b > a && (v[b - 1] == b' ' || v[b - 1] == b'\t') {
        b -= 1;
    }
    &v[a..b]
}

/// sample for the evidence file: one request as it travelled
pub fn sample_request(run: &Run) -> Option<Value> {
    let h = run.hosts.lock().unwrap();
    for (_pi, cp, cr) in run.conns.iter() {
        for (ri, rq) in cp.reqs.iter().enumerate() {
            let st = cr.results.get(ri).and_then(|r| r.resp.as_ref()).map(|m| m.status());
            let at_host = h.log.iter().find(|r| r.token.as_deref() == Some(rq.tok.as_str()));
            return Some(json!({
                "client": {"pid": cp.task.tgid, "uid": cp.task.uid, "dst": cp.dst_name, "request": format!("{} {}", rq.method, rq.target), "body_len": rq.body.len(), "status_received": st},
                "at_host": at_host.map(|r| json!({"host": r.host, "headers": r.msg.head.headers.iter().map(|(n, v)| format!("{}: {}", n, String::from_utf8_lossy(v))).collect::<Vec<_>>(), "sig": format!("{:?}", r.sig)})),
            }));
        }
    }
    None
}

/// C13 (checked in every scenario): the panic hook must never have fired inside repository code or the
/// libraries it calls. A panic located in the harness itself is a harness error, reported separately.
pub fn check_panics(run: &mut Run) {
    let ps = crate::PANICS.lock().unwrap().clone();
    for (loc, msg) in ps {
        if loc.contains("/verif/sim/harness/") || loc.contains("/verif/sim/vrt/") {
            run.notes.push(format!("HARNESS-PANIC {} at {}", msg, loc));
        } else {
            run.violate("C13", &format!("panic at {}", loc.rsplit("/repo/").next().unwrap_or(&loc)), format!("{} at {}", msg.chars().take(300).collect::<String>(), loc));
        }
    }
}

/// C02, localised: the public decision function called directly on (document, caller, url) triples, in the
/// same process (so the hash iteration order it walks is the run's seeded order), compared with the reference.
pub fn rbac_direct(run: &mut Run, step: &Value) {
    use azure_proxy_agent::key_keeper::key::AuthorizationItem;
    use azure_proxy_agent::proxy::authorization_rules::ComputedAuthorizationItem;
    use azure_proxy_agent::proxy::proxy_connection::ConnectionLogger;
    let plan = run.plan.clone();
    let dup = plan["dup_names"].as_bool().unwrap_or(false);
    let procs: Vec<usize> = step["procs"].as_array().map(|a| a.iter().map(|x| x.as_u64().unwrap_or(0) as usize).collect()).unwrap_or_default();
    let mut n = 0i64;
    let mut denies = 0i64;
    for case in step["cases"].as_array().cloned().unwrap_or_default() {
        let item_json = &case["item"];
        let item: AuthorizationItem = match serde_json::from_value(item_json.clone()) {
            Ok(i) => i,
            Err(e) => {
                run.notes.push(format!("rbac_direct: item does not deserialize: {}", e));
                continue;
            }
        };
        let computed = match std::panic::catch_unwind(std::panic::AssertUnwindSafe(|| ComputedAuthorizationItem::from_authorization_item(item))) {
            Ok(c) => c,
            Err(_) => {
                run.violate("C13", "rule flattening panicked", format!("item={}", item_json));
                run.violate("C02", "rule flattening panicked", format!("item={}", item_json));
                continue;
            }
        };
        for pi in procs.iter() {
            let caller = crate::world::caller_of(&plan, *pi);
            let p = &plan["procs"][*pi];
            let claims = azure_proxy_agent::proxy::Claims {
                userId: p["uid"].as_u64().unwrap_or(0),
                userName: caller.user.clone(),
                userGroups: caller.groups.clone(),
                processId: p["pid"].as_u64().unwrap_or(0) as u32,
                processName: caller.process_name.clone().into(),
                processFullPath: caller.exe_path.clone().into(),
                processCmdLine: String::new(),
                runAsElevated: caller.elevated,
                clientIp: "127.0.0.1".into(),
                clientPort: 0,
            };
            for u in case["urls"].as_array().cloned().unwrap_or_default() {
                let us = u.as_str().unwrap_or("/");
                let uri: hyper::Uri = match us.parse() {
                    Ok(x) => x,
                    Err(_) => continue,
                };
                let mut logger = ConnectionLogger::new(0, 0);
                // a panic of the decision function is a finding about the repository code, not a harness failure
                let got = match std::panic::catch_unwind(std::panic::AssertUnwindSafe(|| computed.is_allowed(&mut logger, uri, claims.clone()))) {
                    Ok(g) => g,
                    Err(_) => {
                        run.violate("C13", "decision function panicked", format!("url={} caller={:?} item={}", us, caller, item_json));
                        run.violate("C02", "decision function panicked", format!("url={} caller={:?} item={}", us, caller, item_json));
                        continue;
                    }
                };
                let want = rbac::is_allowed(item_json, &caller, us);
                n += 1;
                if want == rbac::Decision::Deny {
                    denies += 1;
                }
                let bad = match want {
                    rbac::Decision::Allow => !got,
                    rbac::Decision::Deny => got,
                    rbac::Decision::Either => false,
                };
                if bad {
                    // (duplicate names also arise without the generator asking for them, e.g. two identities drawn with the
                    // same name: what matters is whether "only the last entry of a name is kept" reproduces the decision)
                    let _ = dup;
                    let explained = rbac::has_duplicate_names(item_json) && {
                        let w2 = rbac::is_allowed(&rbac::collapse_last(item_json), &caller, us);
                        // (Either: the reference leaves the collapsed document undecided - it does not contradict the agent)
                        (w2 == rbac::Decision::Allow && got) || (w2 == rbac::Decision::Deny && !got) || w2 == rbac::Decision::Either
                    };
                    let class = format!("decision function {} although the declared semantics {}{}", if got { "allows" } else { "denies" }, if got { "deny" } else { "allow" }, if explained { " [explained by: of entries sharing a name only the last is kept]" } else { "" });
                    run.violate("C02", &class, format!("url={} caller={:?} item={}", us, caller, item_json));
                }
            }
        }
    }
    run.stat("c02.direct_decisions", n);
    run.stat("c02.direct_deny", denies);
}

/// C11: the failed-authorization summary, aggregated by what the property names (user, executable path,
/// command line, destination ip and port), equals the reference count of rule denials; the same totals
/// appear in status.json after the status task's next write.
fn check_c11(run: &Run, plan: &Value, viol: &mut Vec<(String, String, String)>, stats: &mut BTreeMap<String, i64>) {
    type Key = (String, String, String, String, u16);
    let mut lower: BTreeMap<Key, u64> = BTreeMap::new(); // certain rule denials
    let mut slack: BTreeMap<Key, u64> = BTreeMap::new(); // refusals that may or may not be recorded
    for (pi, cp, cr) in run.conns.iter() {
        let phase = &run.phases[*pi];
        if !cr.connected || (!cr.redirected && cp.dst != hosts::PROXY) {
            continue;
        }
        let caller = crate::world::caller_of(plan, cp.proc);
        let p = &plan["procs"][cp.proc];
        let known = p["known"].as_bool().unwrap_or(true);
        let cmd = if known { p["cmd"].as_array().map(|a| a.iter().map(|x| x.as_str().unwrap_or("")).collect::<Vec<_>>().join(" ")).unwrap_or_default() } else { "undefined".to_string() };
        let recorded_dst = match &cp.inject { Some(d) => d.clone(), None => cp.dst.clone() };
        let a: std::net::SocketAddrV4 = recorded_dst.parse().unwrap();
        let key: Key = (caller.user.clone(), caller.exe_path.clone(), cmd, a.ip().to_string(), a.port());
        let attributed = cr.redirected || cp.inject.is_some();
        for (ri, rq) in cp.reqs.iter().enumerate() {
            let (path, _) = hosts::split_target(&rq.target);
            if !attributed || path.contains("..") || rq.target == "/provision" {
                continue;
            }
            let answered = cr.results.get(ri).map(|r| r.resp.is_some()).unwrap_or(false);
            let o = rbac::endpoint_outcome(&phase.doc, &recorded_dst, &caller, &rq.target);
            let non_rule = recorded_dst == hosts::PROXY || ((recorded_dst == hosts::WIRE || recorded_dst == hosts::GA) && !caller.elevated);
            let certain = phase.prev_docs.is_empty() && answered && !non_rule;
            match o {
                Outcome::Forbid | Outcome::RelayAudit if certain => *lower.entry(key.clone()).or_insert(0) += 1,
                Outcome::Relay if certain => {}
                _ => *slack.entry(key.clone()).or_insert(0) += 1,
            }
        }
    }
    let agg = |arr: &Value| -> BTreeMap<Key, u64> {
        let mut m: BTreeMap<Key, u64> = BTreeMap::new();
        for e in arr.as_array().cloned().unwrap_or_default() {
            let k: Key = (
                e["userName"].as_str().unwrap_or("").to_string(),
                e["processFullPath"].as_str().unwrap_or("").to_string(),
                e["processCmdLine"].as_str().unwrap_or("").to_string(),
                e["ip"].as_str().unwrap_or("").to_string(),
                e["port"].as_u64().unwrap_or(0) as u16,
            );
            *m.entry(k).or_insert(0) += e["count"].as_u64().unwrap_or(0);
        }
        m
    };
    let mut observed: Option<BTreeMap<Key, u64>> = None;
    let mut from_file: Option<BTreeMap<Key, u64>> = None;
    for (name, _t, v) in run.observations.iter() {
        if name == "failed_summary" {
            observed = Some(agg(v));
        }
        if name == "status_json" && v.is_object() {
            from_file = Some(agg(&v["failedAuthenticateSummary"]));
        }
    }
    let observed = match observed {
        Some(o) => o,
        None => return,
    };
    let mut keys: std::collections::BTreeSet<Key> = lower.keys().cloned().collect();
    keys.extend(observed.keys().cloned());
    for k in keys {
        let lo = *lower.get(&k).unwrap_or(&0);
        let hi = lo + *slack.get(&k).unwrap_or(&0);
        let got = *observed.get(&k).unwrap_or(&0);
        *stats.entry("c11.tuples".into()).or_insert(0) += 1;
        *stats.entry("c11.denials_expected".into()).or_insert(0) += lo as i64;
        if got < lo || got > hi {
            viol.push(("C11".into(), if got < lo { "denial missing from the failed-authorization summary".into() } else { "failed-authorization summary counts more than the denials that happened".into() }, format!("caller/dst={:?} recorded={} expected between {} and {}", k, got, lo, hi)));
        }
    }
    match from_file {
        Some(f) => {
            if f != observed {
                viol.push(("C11".into(), "status.json does not publish the failed-authorization summary".into(), format!("file={:?} agent={:?}", f, observed)));
            }
            *stats.entry("c11.status_json_compared".into()).or_insert(0) += 1;
        }
        None => {
            if !lower.is_empty() {
                viol.push(("C11".into(), "status.json missing or unreadable although denials happened".into(), String::new()));
            }
        }
    }
}
