//! agent-sim: one deterministic simulated run of the whole agent. One process = one run (the agent keeps
//! process-wide statics). Parameters come from the environment, never from argv (the agent's own CLI
//! parser reads argv).
//!   VERIF_SEED      run seed (u64)
//!   VERIF_SCENARIO  scenario family
//!   VERIF_PLAN      optional path of an explicit plan (replay / minimisation); else generated from the seed
//!   VERIF_OUT       path of the result JSON

mod clients;
mod gen;
mod oracle;
mod provision;
mod rbac;
mod scenarios;
mod world;
mod crypto;
mod hostile;
mod hosts;
mod http;
mod keeper;
mod seams;
mod smoke;

use std::sync::Mutex;

pub static PANICS: Mutex<Vec<(String, String)>> = Mutex::new(Vec::new());

fn env_u64(name: &str, default: u64) -> u64 {
    std::env::var(name).ok().and_then(|v| v.parse().ok()).unwrap_or(default)
}

fn main() {
    let seed = env_u64("VERIF_SEED", 1);
    // entropy first: std's per-thread hash keys must be drawn under the run seed
    seams::seed_entropy(seed);
    vrt::init(seed);
    crypto::self_test();
    ebpf_native::install();
    seams::enable(&["/etc/azure", "/var/lib/azure-proxy-agent", "/var/log/azure-proxy-agent", "/dev/console"]);

    std::panic::set_hook(Box::new(|info| {
        let loc = info.location().map(|l| format!("{}:{}", l.file(), l.line())).unwrap_or_default();
        let msg = if let Some(s) = info.payload().downcast_ref::<&str>() {
            s.to_string()
        } else if let Some(s) = info.payload().downcast_ref::<String>() {
            s.clone()
        } else {
            "<non-string panic>".to_string()
        };
        let _ = vrt::try_with(|w| w.log("panic", format!("{} at {}", msg, loc)));
        if let Ok(mut p) = PANICS.lock() {
            p.push((loc, msg));
        }
    }));

    let mut seed_bytes = [0u8; 32];
    vrt::Rng::derive(seed, "tokio").fill(&mut seed_bytes);
    let rt = tokio::runtime::Builder::new_current_thread()
        .enable_time()
        .start_paused(true)
        .rng_seed(tokio::runtime::RngSeed::from_bytes(&seed_bytes))
        .build()
        .expect("runtime");
    let scenario = std::env::var("VERIF_SCENARIO").unwrap_or_else(|_| "smoke".to_string());
    let wall0 = std::time::Instant::now();
    let result = rt.block_on(async {
        vrt::time::start();
        let r = match scenario.as_str() {
            "smoke" => smoke::run(seed).await,
            _ => {
                let tier = std::env::var("VERIF_TIER").unwrap_or_else(|_| "quick".to_string());
                let plan = match std::env::var("VERIF_PLAN") {
                    Ok(p) => serde_json::from_slice(&std::fs::read(&p).expect("read plan")).expect("plan json"),
                    Err(_) => scenarios::generate(&scenario, seed, &tier),
                };
                if std::env::var("VERIF_PRINT_PLAN").is_ok() {
                    return plan;
                }
                scenarios::run(&scenario, seed, plan).await
            }
        };
        vrt::time::stop();
        r
    });
    seams::disable();
    let mut result = result;
    result["wall_ms"] = serde_json::json!(wall0.elapsed().as_millis() as u64);
    let out = serde_json::to_vec(&result).unwrap();
    match std::env::var("VERIF_OUT") {
        Ok(p) => std::fs::write(p, &out).expect("write result"),
        Err(_) => {
            seams::raw_write(1, &out);
            seams::raw_write(1, b"\n");
        }
    }
    // the agent's tasks are still alive; leave without running destructors
    unsafe { libc::_exit(0) };
}
