//! agent-sim: one deterministic simulated run of the whole agent. One process = one run (the agent keeps
//! process-wide statics). Parameters come from the environment, never from argv (the agent's own CLI
//! parser reads argv).
//!   VERIF_SEED      run seed (u64)
//!   VERIF_SCENARIO  scenario family
//!   VERIF_PLAN      optional path of an explicit plan (replay / minimisation); else generated from the seed
//!   VERIF_OUT       path of the result JSON

mod clients;
mod crash;
mod gen;
mod oracle;
mod provision;
mod rbac;
mod scenarios;
mod world;
mod crypto;
mod diskuse;
mod hostile;
mod hosts;
mod http;
mod keeper;
mod seams;
mod smoke;
mod telemetry;

use std::sync::Mutex;

pub static PANICS: Mutex<Vec<(String, String)>> = Mutex::new(Vec::new());

fn env_u64(name: &str, default: u64) -> u64 {
    std::env::var(name).ok().and_then(|v| v.parse().ok()).unwrap_or(default)
}

fn main() {
    let seed = env_u64("VERIF_SEED", 1);
    // entropy first: std's per-thread hash keys must be drawn under the run seed
    seams::seed_entropy(seed);
    vrt::init(seed);
    crypto::self_test();
    ebpf_native::install();
    seams::enable(&["/etc/azure", "/var/lib/azure-proxy-agent", "/var/log/azure-proxy-agent", "/dev/console"]);

    std::panic::set_hook(Box::new(|info| {
        let loc = info.location().map(|l| format!("{}:{}", l.file(), l.line())).unwrap_or_default();
        let msg = if let Some(s) = info.payload().downcast_ref::<&str>() {
            s.to_string()
        } else if let Some(s) = info.payload().downcast_ref::<String>() {
            s.clone()
        } else {
            "<non-string panic>".to_string()
        };
        let _ = vrt::try_with(|w| w.log("panic", format!("{} at {}", msg, loc)));
        if let Ok(mut p) = PANICS.lock() {
            p.push((loc, msg));
        }
    }));

    let mut seed_bytes = [0u8; 32];
    vrt::Rng::derive(seed, "tokio").fill(&mut seed_bytes);
    let rt = tokio::runtime::Builder::new_current_thread()
        .enable_time()
        .start_paused(true)
        .rng_seed(tokio::runtime::RngSeed::from_bytes(&seed_bytes))
        .build()
        .expect("runtime");
    let scenario = std::env::var("VERIF_SCENARIO").unwrap_or_else(|_| "smoke".to_string());
    let wall0 = std::time::Instant::now();
    let result = rt.block_on(async {
        vrt::time::start();
        let r = match scenario.as_str() {
            "smoke" => smoke::run(seed).await,
            _ => {
                let tier = std::env::var("VERIF_TIER").unwrap_or_else(|_| "quick".to_string());
                let plan = match std::env::var("VERIF_PLAN") {
                    Ok(p) => serde_json::from_slice(&std::fs::read(&p).expect("read plan")).expect("plan json"),
                    Err(_) => scenarios::generate(&scenario, seed, &tier),
                };
                if std::env::var("VERIF_PRINT_PLAN").is_ok() {
                    return plan;
                }
                scenarios::run(&scenario, seed, plan).await
            }
        };
        vrt::time::stop();
        r
    });
    seams::disable();
    let mut result = result;
    if scenario == "crash:C08" && result.get("plan").is_some() && std::env::var("VERIF_PRINT_PLAN").is_err() {
        restart_from_every_snapshot(seed, &mut result);
    }
    result["wall_ms"] = serde_json::json!(wall0.elapsed().as_millis() as u64);
    let out = serde_json::to_vec(&result).unwrap();
    match std::env::var("VERIF_OUT") {
        Ok(p) => std::fs::write(p, &out).expect("write result"),
        Err(_) => {
            seams::raw_write(1, &out);
            seams::raw_write(1, b"\n");
        }
    }
    // the agent's tasks are still alive; leave without running destructors
    unsafe { libc::_exit(0) };
}

/// C08 phase 2: restart the agent from every crash-point snapshot of phase 1, each in a fresh process.
fn restart_from_every_snapshot(seed: u64, result: &mut serde_json::Value) {
    use serde_json::json;
    let n = crash::snapshot_count().min(2000);
    let exe = std::env::current_exe().expect("current exe");
    let corrupted: Vec<String> = Vec::new();
    let mut violations: Vec<serde_json::Value> = result["violations"].as_array().cloned().unwrap_or_default();
    let mut restarts = 0u64;
    let mut errors = Vec::new();
    let mut distinct: std::collections::BTreeSet<String> = std::collections::BTreeSet::new();
    let mut samples = Vec::new();
    let corrupted_env = result["c08_corrupted"].as_array().map(|a| a.iter().filter_map(|x| x.as_str()).collect::<Vec<_>>().join(",")).unwrap_or_default();
    let _ = corrupted;
    for k in 0..n {
        let dir = format!("/verif/.build/nsroot/scratch/snaps/{}", k);
        let label = std::fs::read_to_string(format!("{}/label.txt", dir)).unwrap_or_default();
        // identical (disk, host) states need one restart only
        let sig = {
            let mut h = std::fs::read_to_string(format!("{}/host.json", dir)).unwrap_or_default();
            let mut names: Vec<String> = std::fs::read_dir(format!("{}/keys", dir)).map(|rd| rd.flatten().map(|e| format!("{}:{:?}", e.file_name().to_string_lossy(), std::fs::read(e.path()).map(|d| vrt::rng::mix(d.len() as u64, d.iter().fold(0u64, |a, b| a.wrapping_mul(131).wrapping_add(*b as u64)))).unwrap_or(0))).collect()).unwrap_or_default();
            names.sort();
            h.push_str(&names.join("|"));
            h
        };
        if !distinct.insert(sig) {
            continue;
        }
        for d in ["/var/lib/azure-proxy-agent", "/var/log/azure-proxy-agent"] {
            let _ = std::fs::remove_dir_all(d);
        }
        let out = "/verif/.build/nsroot/scratch/restart.json";
        let _ = std::fs::remove_file(out);
        let st = std::process::Command::new(&exe)
            .env_clear()
            .env("PATH", "/nonexistent")
            .env("VERIF_SEED", vrt::rng::mix(seed, k).to_string())
            .env("VERIF_SCENARIO", "crash:C08-restart")
            .env("VERIF_SNAPSHOT", &dir)
            .env("VERIF_C08_CORRUPTED", &corrupted_env)
            .env("VERIF_OUT", out)
            .stdin(std::process::Stdio::null())
            .stdout(std::process::Stdio::null())
            .stderr(std::process::Stdio::null())
            .status();
        restarts += 1;
        match (st, std::fs::read(out).ok().and_then(|d| serde_json::from_slice::<serde_json::Value>(&d).ok())) {
            (Ok(s), Some(r)) if s.success() => {
                if let Some(vs) = r["violations"].as_array() {
                    for v in vs {
                        let mut v = v.clone();
                        v["detail"] = json!(format!("restart from crash point {} ({}): {}", k, label, v["detail"].as_str().unwrap_or("")));
                        violations.push(v);
                    }
                }
                if let Some(ps) = r["panics"].as_array() {
                    for p in ps {
                        violations.push(json!({"property": "C13", "class": format!("panic at {}", p["at"].as_str().unwrap_or("")), "detail": format!("restart from crash point {} ({}): {}", k, label, p["msg"].as_str().unwrap_or("")), "seq": 0}));
                    }
                }
                if samples.len() < 2 {
                    samples.push(json!({"crash_point": k, "label": label, "after_restart": r["progress"], "notes": r["notes"]}));
                }
            }
            (st, _) => errors.push(format!("restart {} failed: {:?}", k, st.map(|s| s.code()))),
        }
    }
    result["violations"] = json!(violations);
    result["verdict"] = json!(if result["violations"].as_array().map(|a| a.is_empty()).unwrap_or(true) { "ok" } else { "violation" });
    result["stats"]["c08.restarts"] = json!(restarts);
    result["stats"]["c08.distinct_crash_states"] = json!(distinct.len());
    result["progress"]["restarts"] = json!(restarts);
    if !errors.is_empty() {
        let mut notes = result["notes"].as_array().cloned().unwrap_or_default();
        for e in errors.iter().take(5) {
            notes.push(json!(format!("HARNESS-PANIC {}", e)));
        }
        result["notes"] = json!(notes);
    }
    if let Some(s) = result["samples"].as_array_mut() {
        s.extend(samples);
    }
}
