//! C13: hostile inputs from clients, the process table and the host; oracle = the panic hook never fires
//! (checked in every scenario) plus liveness after the hostile phase.

use crate::gen::{doc_v1, doc_v2, gen_knobs, grant_all_item, host_name_of, users_json};
use crate::world::Run;
use serde_json::{json, Value};
use vrt::Rng;

fn multibyte_string(r: &mut Rng, total_bytes: usize) -> String {
    // multi-byte characters of every width, placed so that byte offsets 1024 and 4096 (and everything
    // around them) fall inside a character with high probability
    let alphabet: [&str; 6] = ["é", "漢", "😀", "ß", "字", "a"];
    let w = *r.pick(&[0usize, 1, 2, 4, 5]);
    let mut s = String::new();
    for _ in 0..r.below(5) {
        s.push('x'); // ASCII prefix shifts the alignment
    }
    while s.len() < total_bytes {
        if w == 5 {
            s.push_str(*r.pick(&alphabet));
        } else {
            s.push_str(alphabet[w]);
        }
    }
    s
}

/// every byte as one char <= 0xFF: the plan's Latin-1 convention for raw bytes
fn latin1(bytes: &[u8]) -> String {
    bytes.iter().map(|b| *b as char).collect()
}

pub fn gen_c13(seed: u64, tier: &str) -> Value {
    let mut r = Rng::derive(seed, "work");
    let mut procs = Vec::new();
    let sizes = [0usize, 10, 900, 1000, 1020, 1024, 1030, 2000, 4000, 4090, 4096, 4100, 6000];
    for i in 0..3u64 {
        let cmdlen = *r.pick(&sizes);
        let exe_bytes: Vec<u8> = match r.below(4) {
            0 => b"/usr/bin/curl".to_vec(),
            1 => {
                let n = *r.pick(&[8usize, 200, 1020, 4090]);
                format!("/opt/{}/bin", multibyte_string(&mut r, n)).into_bytes()
            }
            2 => vec![b'/', b'b', 0xff, 0xfe, b'/', 0x80, b'x'], // not UTF-8
            _ => Vec::new(),
        };
        let uid = if i == 0 { 0 } else { *r.pick(&[0u64, 1001, 1002]) };
        let cmd0 = multibyte_string(&mut r, cmdlen);
        procs.push(json!({"pid": 1000 + i * 3, "tid": 1000 + i * 3, "uid": uid, "gid": uid, "exe": latin1(&exe_bytes), "cmd": [cmd0, "\"<>&'\r\n]]>"], "known": !r.chance(1, 8)}));
    }
    let mut users = users_json();
    if r.chance(1, 2) {
        let n = *r.pick(&[4usize, 300, 1025, 4097]);
        users[1]["name"] = json!(latin1(multibyte_string(&mut r, n).as_bytes()));
    }
    // a benign elevated process for the liveness probe at the end
    procs.push(json!({"pid": 2000, "tid": 2000, "uid": 0, "gid": 0, "exe": "/usr/sbin/waagent", "cmd": ["waagent", "-daemon"], "known": true}));
    let procs = Value::Array(procs);
    let mut steps = Vec::new();
    let mut edge = false;
    // a document that makes denials happen (so that claims land in error details and summaries)
    let mut doc = match r.below(4) {
        0 => doc_v1("wireserverandimds"),
        _ => {
            let m1 = *r.pick(&["enforce", "audit"]);
            let m2 = *r.pick(&["enforce", "audit", "disabled"]);
            let d2 = *r.pick(&["allow", "deny"]);
            doc_v2(true, Some(json!({"imds": grant_all_item("imds-0", m1, "deny", None), "wireserver": grant_all_item("ws-0", m2, d2, None)})))
        }
    };
    if doc["version"] == "2.0" && r.chance(2, 3) {
        doc["authorizationRules"]["imds"]["rules"]["roleAssignments"] = json!([]); // nobody is granted anything
    }
    // a third of the runs: a well-formed but sloppy rule document as an operator could write one - references to roles,
    // identities and privileges that are not defined, sections left out, names used twice, upper-case paths - followed
    // by requests that hit its privileges
    let sloppy_rules = r.chance(1, 3);
    if sloppy_rules {
        let o = crate::gen::RuleOpts { allow_upper_paths: true, allow_dup_names: true, allow_missing_sections: true, allow_dangling: true };
        let procs_v = Value::Array(procs.as_array().cloned().unwrap_or_default());
        doc = crate::gen::gen_doc(&mut r, &procs_v, &o, 0);
    }
    steps.push(json!({"t": "doc", "doc": doc.clone()}));
    if r.chance(1, 3) {
        steps.push(json!({"t": "clock_coarse", "ns": *r.pick(&[1_000_000u64, 10_000_000, 100_000_000, 1_000_000_000])}));
    }
    steps.push(json!({"t": "wait_polls", "n": 2, "max_s": 300}));
    let rounds = 1 + r.below(if tier == "thorough" { 4 } else { 3 });
    let mut tokn = 0u64;
    for _ in 0..rounds {
        // hostile host answers for the agent's own calls
        for _ in 0..r.below(3) {
            let body_len = *r.pick(&[10usize, 900, 1020, 1100, 4000, 4100, 9000]);
            let kind = *r.pick(&["status", "status", "acquire", "goalstate", "imds_instance", "sharedconfig"]);
            let f = match r.below(6) {
                0 => {
                    let ct = *r.pick(&["application/json", "application/json; charset=utf-8", "text/plain", "text/xml"]);
                    json!({"f": "malformed", "body": latin1(multibyte_string(&mut r, body_len).as_bytes()), "ctype": ct})
                }
                1 => {
                    // utf-16 declared, odd number of bytes
                    let mut b: Vec<u8> = "{\"x\": 1}".encode_utf16().flat_map(|u| u.to_le_bytes()).collect();
                    if r.chance(1, 3) {
                        b.insert(0, 0xfe); // byte order mark
                        b.insert(0, 0xff);
                    }
                    match r.below(6) {
                        0 => b.truncate(0), // degenerate lengths: nothing, half a code unit, one unit, one and a half
                        1 => b.truncate(1),
                        2 => b.truncate(2),
                        3 => b.truncate(3),
                        4 => b.push(0x41),
                        _ => {}
                    }
                    json!({"f": "malformed", "body": latin1(&b), "ctype": "application/json; charset=utf-16"})
                }
                2 => json!({"f": "malformed", "body": "{}", "ctype": "application/json; charset=utf-32"}),
                3 => json!({"f": "malformed", "body": "<a><b></a>", "ctype": *r.pick(&["text/xml", "application/json"])}),
                4 => {
                    let st = *r.pick(&[400u64, 500, 503]);
                    json!({"f": "status_body", "status": st, "body": latin1(multibyte_string(&mut r, body_len).as_bytes()), "ctype": "text/plain; charset=utf-8"})
                }
                _ => json!({"f": "malformed", "body": latin1(&[0xff, 0xfe, 0x00, 0xd8, 0x00]), "ctype": "application/json; charset=utf-16"}),
            };
            // a slow host: the answer takes longer than a poll interval (1 s while the channel state is unknown, the
            // configured interval afterwards)
            let f = if r.chance(1, 5) { json!({"f": "stall", "ms": *r.pick(&[1200u64, 2500, 9000, 16_000, 40_000])}) } else { f };
            steps.push(json!({"t": "host_fault", "kind": kind, "fault": f}));
        }
        let mut conns = Vec::new();
        for _ in 0..1 + r.below(4) {
            let dst = *r.pick(&["imds", "imds", "wire", "ga", "direct"]);
            let mut reqs = Vec::new();
            for _ in 0..1 + r.below(3) {
                tokn += 1;
                let mut hs = vec![json!(["Host", host_name_of(dst)])];
                match r.below(6) {
                    0 => hs.push(json!(["X-Obs-Text", latin1(&[b'a', 0x80, 0xff, 0xe9, b'z'])])),
                    1 => {
                        for k in 0..100 {
                            hs.push(json!(["X-Rep", format!("v{}", k)]));
                        }
                    }
                    2 => hs.push(json!(["X-Long", "h".repeat(*r.pick(&[1000usize, 8000, 30000]))])),
                    3 => hs.push(json!(["Metadata", latin1("tr\u{fc}e".as_bytes())])),
                    4 => hs.push(json!(["x-ms-azure-time_tick", latin1(&[0xff, 0x31])])),
                    _ => hs.push(json!(["Metadata", "true"])),
                }
                let target = match r.below(6) {
                    0 => format!("/metadata/instance?{}", "q=1&".repeat(*r.pick(&[10usize, 1000, 10000]))),
                    1 => format!("/{}", "p".repeat(*r.pick(&[100usize, 5000, 60000]))),
                    2 => "/metadata/instance?&&==&a&=b&%zz".to_string(),
                    3 => "/provision".to_string(),
                    4 => format!("/metadata/instance?x={}", "%E6%BC%A2".repeat(*r.pick(&[1usize, 400, 1400]))),
                    _ => "/metadata/instance?api-version=2018-02-01".to_string(),
                };
                let mut target = target;
                if sloppy_rules && r.chance(2, 3) {
                    let ep = match dst { "imds" => "imds", "wire" => "wireserver", "ga" => "hostga", _ => "imds" };
                    let item = &doc["authorizationRules"][ep];
                    if item.is_object() {
                        let urls = crate::gen::c02_urls(&mut r, item);
                        target = r.pick(&urls).clone();
                    }
                }
                let mut q = json!({"method": *r.pick(&["GET", "POST", "PUT"]), "target": target, "headers": hs, "tok": format!("t{}", tokn)});
                if q["method"] != "GET" {
                    q["body"] = json!({"len": r.below(2000), "seed": r.next() >> 8, "ascii": false});
                    if r.chance(1, 4) {
                        q["slow"] = crate::gen::gen_slow(&mut r);
                    }
                }
                if r.chance(1, 4) {
                    let st = *r.pick(&[200u64, 500, 404]);
                    q["resp"] = json!({"status": st, "headers": [["Content-Type", "text/plain"], ["X-Obs", latin1(&[0xe9, 0x80])]], "body": {"len": r.below(3000), "seed": 7, "ascii": false}});
                }
                reqs.push(q);
            }
            conns.push(json!({"proc": r.below(3), "dst": dst, "start_ms": r.below(30), "pipeline": r.chance(1, 5), "reqs": reqs}));
        }
        // clients that connect and vanish at once (abortive reset or orderly close, with no request), landing before,
        // while or after the listener gets to their socket
        for _ in 0..r.below(3) {
            let how = format!("{}:{}:{}", *r.pick(&["reset_after_send", "reset_after_send", "fin_after_send"]), *r.pick(&[0u64, 0, 1]), r.below(12));
            conns.push(json!({"proc": r.below(3), "dst": *r.pick(&["imds", "wire", "direct"]), "start_ms": r.below(30), "close": how, "reqs": []}));
        }
        // a third of the batches: the host changes its mind while the requests are in flight (channel disabled and the
        // key cleared, keys rotated, channel enabled again) - handlers that are waiting for a slow client wake up in
        // another state than they started in
        if r.chance(1, 3) {
            let mut during = Vec::new();
            let mut t = r.below(1500);
            for _ in 0..1 + r.below(3) {
                let act = match r.below(4) {
                    0 | 1 => json!({"t": "doc", "doc": doc_v1("disabled")}),
                    2 => json!({"t": "doc", "doc": doc_v1(*r.pick(&["wireserver", "wireserverandimds"]))}),
                    _ => json!({"t": "host_latch", "mode": *r.pick(&["none", "new"])}),
                };
                during.push(json!({"after_ms": t, "do": act}));
                t += 200 + r.below(12_000);
            }
            steps.push(json!({"t": "clients_with", "conns": conns, "during": during}));
            // back to a document that makes denials happen
            steps.push(json!({"t": "doc", "doc": doc.clone()}));
            steps.push(json!({"t": "wait_polls", "n": 1, "max_s": 300}));
        } else {
            steps.push(json!({"t": "clients", "conns": conns}));
        }
        if r.chance(1, 3) {
            steps.push(json!({"t": "sleep", "ms": *r.pick(&[61_000u64, 130_000])}));
        }
    }
    // the notify path of the provisioning query (exercises the key keeper's wake-up arithmetic)
    if r.chance(1, 2) {
        steps.push(json!({"t": "clients", "conns": [{"proc": 0, "dst": "direct", "start_ms": r.below(9000), "reqs": [{"method": "GET", "target": "/provision", "headers": [["Host", "127.0.0.1:3080"], ["Metadata", "true"], ["x-ms-azure-time_tick", "99999999999999999999999999999"], ["x-ms-azure-notify", "true"]], "tok": "pvn"}]}]}));
    }
    // a notify landing right at the end of the key keeper's sleep (timer-edge bias)
    if r.chance(1, 2) {
        steps.push(json!({"t": "notify_at_poll_edge", "offset_ms": r.below(40), "proc": 3}));
        edge = true;
    }
    // liveness half: after the hostile phase everything still works
    steps.push(json!({"t": "drain_faults", "max_s": 200}));
    if sloppy_rules {
        // the probe below must be authorised whatever the sloppy document said
        steps.push(json!({"t": "doc", "doc": doc_v1("wireserverandimds")}));
        steps.push(json!({"t": "wait_polls", "n": 2, "max_s": 300}));
    }
    steps.push(json!({"t": "sleep", "ms": 70_000}));
    steps.push(json!({"t": "liveness_mark"}));
    steps.push(json!({"t": "clients", "conns": [{"proc": 3, "dst": "wire", "start_ms": 0, "reqs": [{"method": "GET", "target": "/machine?comp=goalstate", "headers": [["Host", "168.63.129.16"], ["x-ms-version", "2012-11-30"]], "tok": "live1"}]}]}));
    steps.push(json!({"t": "sleep", "ms": 75_000}));
    steps.push(json!({"t": "liveness_check"}));
    let mut knobs = gen_knobs(&mut r, false);
    if edge && r.chance(1, 2) {
        // the key keeper is the 7th task spawned (after the six state actors): make it the slow one
        knobs["sched.victim_a"] = json!(6);
        knobs["sched.victim_ms"] = json!(2 + r.below(40));
    }
    json!({
        "scenario": "hostile:C13", "seed": seed, "family": "hostile", "prop": "C13",
        "knobs": knobs, "procs": procs, "users": users, "steps": steps, "oracles": ["C13"],
        "config": {"pollKeyStatusIntervalInSeconds": 1 + r.below(15)}, "settle_ms": 1000, "faulty": true,
    })
}

fn status_json_writes() -> usize {
    vrt::with(|w| w.events.iter().filter(|e| e.kind == "disk" && e.text.starts_with("rename ") && e.text.contains("status.json")).count())
}

pub async fn custom_step(run: &mut Run, _idx: usize, kind: &str, _s: &Value) -> bool {
    match kind {
        "notify_at_poll_edge" => {
            // wait for the next status poll, then fire a /provision query carrying the notify header just
            // before the key keeper's sleep (poll interval) runs out
            let interval_ms = run.plan["config"]["pollKeyStatusIntervalInSeconds"].as_u64().unwrap_or(15) * 1000;
            let (notify, base) = {
                let g = run.hosts.lock().unwrap();
                (g.notify.clone(), g.status_calls)
            };
            let deadline = tokio::time::Instant::now() + std::time::Duration::from_secs(60);
            while run.hosts.lock().unwrap().status_calls == base {
                if tokio::time::timeout_at(deadline, notify.notified()).await.is_err() {
                    return true;
                }
            }
            let off = _s["offset_ms"].as_u64().unwrap_or(20);
            tokio::time::sleep(std::time::Duration::from_millis((interval_ms + off).saturating_sub(25))).await;
            let conns = json!([{"proc": _s["proc"], "dst": "direct", "start_ms": 0, "reqs": [{"method": "GET", "target": "/provision", "headers": [["Host", "127.0.0.1:3080"], ["Metadata", "true"], ["x-ms-azure-time_tick", "99999999999999999999999999999"], ["x-ms-azure-notify", "true"]], "tok": "edge"}]}]);
            for p in crate::world::conn_plans(&run.plan, 900 + _idx, &conns) {
                let r = crate::clients::run_conn(p).await;
                let st = r.results.first().and_then(|x| x.resp.as_ref()).map(|m| m.status());
                run.stat("c13.edge_notify_sent", 1);
                if st != Some(200) {
                    run.notes.push(format!("edge notify answered {:?}", st));
                }
            }
            true
        }
        "liveness_mark" | "liveness_check" => {
            let calls = run.hosts.lock().unwrap().status_calls;
            let o = json!({"status_calls": calls, "status_json_writes": status_json_writes()});
            run.observations.push((kind.to_string(), vrt::time::now_ns(), o));
            true
        }
        _ => false,
    }
}

pub fn check_c13(run: &mut Run) {
    let mut mark: Option<Value> = None;
    let mut chk: Option<Value> = None;
    for (l, _t, o) in run.observations.iter() {
        if l == "liveness_mark" {
            mark = Some(o.clone());
        }
        if l == "liveness_check" {
            chk = Some(o.clone());
        }
    }
    let mut viol: Vec<(String, String)> = Vec::new();
    if let (Some(m), Some(c)) = (mark, chk) {
        if c["status_calls"].as_u64().unwrap_or(0) <= m["status_calls"].as_u64().unwrap_or(0) {
            viol.push(("key keeper stopped polling".into(), format!("no status request in 150 simulated seconds after the hostile phase (calls stayed at {})", m["status_calls"])));
        }
        if c["status_json_writes"].as_u64().unwrap_or(0) <= m["status_json_writes"].as_u64().unwrap_or(0) {
            viol.push(("status task stopped publishing".into(), format!("status.json not rewritten in 150 simulated seconds after the hostile phase (writes stayed at {})", m["status_json_writes"])));
        }
        run.stat("c13.liveness_checked", 1);
    }
    // the fresh, well-formed, authorised request after the hostile phase must succeed
    let live: Vec<(u16, Option<String>)> = run
        .conns
        .iter()
        .filter(|(_, cp, _)| cp.reqs.iter().any(|q| q.tok == "live1"))
        .map(|(_, _, cr)| (cr.results.first().and_then(|r| r.resp.as_ref()).map(|m| m.status()).unwrap_or(0), cr.connect_err.clone()))
        .collect();
    for (st, err) in live {
        if st != 200 {
            viol.push(("listener no longer serves a well-formed authorised request".into(), format!("status {} connect_err {:?}", st, err)));
        }
    }
    // every first request on a connection is owed an HTTP response
    for (_pi, cp, cr) in run.conns.iter() {
        if cr.connected && cp.close == "normal" && !cp.reqs.is_empty() {
            let r0 = cr.results.first();
            if r0.map(|r| r.sent && r.resp.is_none()).unwrap_or(false) {
                viol.push(("valid request got no HTTP response".into(), format!("tok={} err={:?}", cp.reqs[0].tok, r0.and_then(|r| r.err.clone()))));
            }
        }
    }
    run.stat("c13.requests", run.conns.iter().map(|c| c.1.reqs.len() as i64).sum());
    for (c, d) in viol {
        run.violate("C13", &c, d);
    }
}
