//! C19: disk usage by logs, events and rule dumps stays within configured bounds. Reduced world (no
//! network): the real `RollingLogger`, `event_logger` and `AuthorizationRulesForLogging::write_all` through
//! their public APIs on the simulated disk and clocks; the bounds are checked after every operation.

use crate::gen::{gen_knobs, users_json};
use crate::world::Run;
use azure_proxy_agent::proxy::authorization_rules::{AuthorizationRulesForLogging, ComputedAuthorizationRules};
use proxy_agent_shared::logger::rolling_logger::RollingLogger;
use proxy_agent_shared::telemetry::event_logger;
use serde_json::{json, Value};
use vrt::Rng;

const LOG_DIR: &str = "/var/log/azure-proxy-agent/c19logs";
const EVENT_DIR: &str = "/var/log/azure-proxy-agent/c19events";
const RULES_DIR: &str = "/var/log/azure-proxy-agent/c19rules";

pub fn gen_c19(seed: u64, tier: &str) -> Value {
    let mut r = Rng::derive(seed, "work");
    let nlog = 1 + r.below(3);
    let mut loggers = Vec::new();
    for i in 0..nlog {
        loggers.push(json!({"name": format!("{}.log", ["ProxyAgent", "ProxyAgent.Connection", "setup"][i as usize]), "size": *r.pick(&[200u64, 512, 1024, 4096, 8192]), "count": 1 + r.below(6)}));
    }
    let event_cap = 1 + r.below(5);
    let rules_cap = 1 + r.below(5);
    let nops = 20 + r.below(if tier == "thorough" { 280 } else { 120 });
    let backward_jumps = r.chance(1, 6);
    let mut ops = Vec::new();
    for _ in 0..nops {
        let op = match r.below(14) {
            0 | 1 | 2 | 3 => json!({"op": "log", "logger": r.below(nlog), "len": match r.below(5) { 0 => 0, 1 => r.below(50), 2 => r.below(400), 3 => r.below(3000), _ => r.below(20_000) }}),
            4 | 5 => json!({"op": "log_many", "logger": r.below(nlog), "lens": (0..1 + r.below(8)).map(|_| r.below(600)).collect::<Vec<_>>()}),
            6 | 7 => json!({"op": "event_burst", "n": match r.below(4) { 0 => 1, 1 => r.below(20), 2 => r.below(200), _ => 900 + r.below(300) }, "len": r.below(5000)}),
            8 | 9 => json!({"op": "advance", "ms": match r.below(5) { 0 => 0, 1 => r.below(100), 2 => 1000 + r.below(5000), 3 => 60_000, _ => 3_600_000 }}),
            10 | 11 => json!({"op": "rules"}),
            12 => {
                if r.chance(1, 2) {
                    json!({"op": "restart"})
                } else if r.chance(2, 3) {
                    // something that is not a regular file appears in one of the folders (a dangling symbolic link, a
                    // sub-folder): listing such a folder can fail or return entries that cannot be examined
                    json!({"op": "junk", "dir": *r.pick(&["rules", "rules", "events", "logs"]), "kind": *r.pick(&["dangling_symlink", "dangling_symlink", "subdir"])})
                } else {
                    json!({"op": "unjunk"})
                }
            }
            _ => {
                if backward_jumps {
                    json!({"op": "clock_jump", "ms": -(r.below(7_200_000) as i64)})
                } else {
                    json!({"op": "clock_jump", "ms": r.below(86_400_000)})
                }
            }
        };
        ops.push(op);
    }
    let mut disk_faults = Vec::new();
    if r.chance(1, 5) {
        disk_faults.push(json!({"op": "write", "path": "/var/log/azure-proxy-agent/c19", "nth": 1 + r.below(40), "errno": *r.pick(&[28i64, 5]), "short": 0}));
    }
    // archiving or pruning fails: renaming a full log file, removing an old archive or dump (the bounds are still owed:
    // what cannot be rolled must not keep growing, what cannot be pruned must not be added to)
    let mut bound_faults = false;
    if r.chance(1, 5) {
        for _ in 0..1 + r.below(3) {
            let (op, path) = *r.pick(&[("rename", "c19logs"), ("rename", "c19logs"), ("unlink", "c19logs"), ("unlink", "c19rules"), ("unlink", "c19events")]);
            disk_faults.push(json!({"op": op, "path": path, "nth": 1 + r.below(6), "errno": *r.pick(&[5i64, 13, 36, 30]), "short": 0}));
        }
        bound_faults = true;
    }
    let knobs = gen_knobs(&mut r, false);
    json!({
        "scenario": "disk:C19", "seed": seed, "family": "disk", "prop": "C19", "autostart": false,
        "knobs": knobs, "procs": [], "users": users_json(), "oracles": ["C19"], "disk_faults": disk_faults,
        "steps": [{"t": "disk_world", "loggers": loggers, "event_cap": event_cap, "rules_cap": rules_cap, "event_interval_ms": *r.pick(&[1000u64, 5000, 60_000]), "ops": ops, "backward_jumps": backward_jumps}],
        "config": {}, "settle_ms": 100, "faulty": !disk_faults.is_empty() && !bound_faults, "bound_faults": bound_faults,
    })
}

fn list(dir: &str) -> Vec<(String, u64)> {
    crate::seams::untraced(|| {
        let mut v: Vec<(String, u64)> = std::fs::read_dir(dir)
            .map(|rd| rd.flatten().filter(|e| e.path().is_file()).map(|e| (e.file_name().to_string_lossy().to_string(), e.metadata().map(|m| m.len()).unwrap_or(0))).collect())
            .unwrap_or_default();
        v.sort();
        v
    })
}

pub async fn custom_step(run: &mut Run, _idx: usize, kind: &str, s: &Value) -> bool {
    if kind != "disk_world" {
        return false;
    }
    let specs: Vec<(String, u64, u16)> = s["loggers"].as_array().cloned().unwrap_or_default().iter().map(|l| (l["name"].as_str().unwrap_or("x.log").to_string(), l["size"].as_u64().unwrap_or(1024), l["count"].as_u64().unwrap_or(3) as u16)).collect();
    let mk = |specs: &Vec<(String, u64, u16)>| -> Vec<RollingLogger> { specs.iter().map(|(n, sz, c)| RollingLogger::create_new(LOG_DIR.into(), n.clone(), *sz, *c)).collect() };
    let mut loggers = mk(&specs);
    let event_cap = s["event_cap"].as_u64().unwrap_or(3) as usize;
    let rules_cap = s["rules_cap"].as_u64().unwrap_or(3) as usize;
    let faulty = run.plan["faulty"].as_bool().unwrap_or(false);
    let backward = s["backward_jumps"].as_bool().unwrap_or(false);
    crate::seams::untraced(|| {
        for d in [LOG_DIR, EVENT_DIR, RULES_DIR] {
            let _ = std::fs::create_dir_all(d);
        }
    });
    let interval = std::time::Duration::from_millis(s["event_interval_ms"].as_u64().unwrap_or(1000));
    vrt::sched::spawn_perturbed(async move {
        event_logger::start(EVENT_DIR.into(), interval, event_cap, |_s: String| async {}).await;
    });
    let mut last_write: Vec<u64> = vec![0; specs.len()]; // size of the last single write per logger
    let mut rules_written: Vec<String> = Vec::new();
    let mut serial = 0u64;
    let mut prev_sizes: std::collections::BTreeMap<String, (u64, u64)> = std::collections::BTreeMap::new();
    let mut cur_sizes: std::collections::BTreeMap<String, (u64, u64)> = std::collections::BTreeMap::new();
    let mut junk: Vec<String> = Vec::new();
    let mut junk_serial = 0u64;
    let ops = s["ops"].as_array().cloned().unwrap_or_default();
    let mut viol: Vec<(String, String)> = Vec::new();
    for (oi, op) in ops.iter().enumerate() {
        let what = op["op"].as_str().unwrap_or("");
        match what {
            "log" => {
                let i = op["logger"].as_u64().unwrap_or(0) as usize % loggers.len();
                let msg: String = (0..op["len"].as_u64().unwrap_or(0)).map(|k| (b'a' + (k % 26) as u8) as char).collect();
                last_write[i] = msg.len() as u64 + 35; // header + newline
                let _ = loggers[i].write(log_level(), msg);
            }
            "log_many" => {
                let i = op["logger"].as_u64().unwrap_or(0) as usize % loggers.len();
                let msgs: Vec<String> = op["lens"].as_array().cloned().unwrap_or_default().iter().map(|l| "m".repeat(l.as_u64().unwrap_or(0) as usize)).collect();
                last_write[i] = msgs.iter().map(|m| m.len() as u64 + 1).sum();
                let _ = loggers[i].write_many(msgs);
            }
            "event_burst" => {
                for _ in 0..op["n"].as_u64().unwrap_or(1) {
                    serial += 1;
                    event_logger::write_event(log_level(), format!("ev{} {}", serial, "e".repeat(op["len"].as_u64().unwrap_or(0) as usize)), "m", "mod", "nokey");
                }
            }
            "advance" => tokio::time::sleep(std::time::Duration::from_millis(op["ms"].as_u64().unwrap_or(0))).await,
            "rules" => {
                let r = AuthorizationRulesForLogging::new(None, ComputedAuthorizationRules { imds: None, wireserver: None, hostga: None });
                let before: Vec<String> = list(RULES_DIR).into_iter().map(|x| x.0).collect();
                r.write_all(std::path::Path::new(RULES_DIR), rules_cap);
                let after: Vec<String> = list(RULES_DIR).into_iter().map(|x| x.0).collect();
                for a in after.iter().filter(|a| a.ends_with(".json")) {
                    if !before.contains(a) {
                        rules_written.push(a.clone());
                    }
                }
            }
            "restart" => {
                // a new process on the same directory tree finds whatever the earlier run left
                loggers = mk(&specs);
            }
            "clock_jump" => vrt::time::jump_wall(op["ms"].as_i64().unwrap_or(0) * 1_000_000),
            "junk" => {
                let dir = match op["dir"].as_str().unwrap_or("rules") { "events" => EVENT_DIR, "logs" => LOG_DIR, _ => RULES_DIR };
                junk_serial += 1;
                let p = format!("{}/zz-junk-{}", dir, junk_serial);
                crate::seams::untraced(|| {
                    if op["kind"] == "subdir" {
                        let _ = std::fs::create_dir_all(&p);
                    } else {
                        let _ = std::os::unix::fs::symlink("/nonexistent/target", &p);
                    }
                });
                junk.push(p);
                run.stat("fault.junk_entry_in_folder", 1);
            }
            "unjunk" => {
                crate::seams::untraced(|| {
                    for p in junk.drain(..) {
                        let _ = std::fs::remove_file(&p).or_else(|_| std::fs::remove_dir_all(&p));
                    }
                });
            }
            _ => {}
        }
        // ---- bounds, after every operation
        let files = list(LOG_DIR);
        for (i, (name, size, count)) in specs.iter().enumerate() {
            let stem = name.trim_end_matches(".log");
            // files of this logger: the current file `name` and its archives `stem.<timestamp>.log`; a logger whose
            // name is a prefix of another's (ProxyAgent.log / ProxyAgent.Connection.log) must not count the other's
            let mine: Vec<&(String, u64)> = files
                .iter()
                .filter(|(f, _)| *f == *name || (f.starts_with(&format!("{}.", stem)) && f.ends_with(".log") && f[stem.len() + 1..].chars().next().map(|c| c.is_ascii_digit()).unwrap_or(false)))
                .collect();
            if mine.len() > *count as usize && !faulty {
                viol.push(("more files kept for a rolling log than its configured count".into(), format!("after op {} ({}): logger {} keeps {} files, count {}: {:?}", oi, what, name, mine.len(), count, mine.iter().map(|x| x.0.clone()).collect::<Vec<_>>())));
            }
            for (f, sz) in mine.iter() {
                // a file may pass its limit by the write that crosses it; once it has reached the limit it must not grow
                // any further (the next write rolls it first - and if rolling fails, that write is dropped)
                // (a file of the same name with another inode is a new file: the old one was rolled in between)
                let ino = crate::seams::untraced(|| {
                    use std::os::unix::fs::MetadataExt;
                    std::fs::metadata(format!("{}/{}", LOG_DIR, f)).map(|m| m.ino()).unwrap_or(0)
                });
                let before = match prev_sizes.get(f.as_str()) {
                    Some((pino, psz)) if *pino == ino => *psz,
                    _ => 0,
                };
                cur_sizes.insert(f.clone(), (ino, *sz));
                if *sz > before && before >= *size && !faulty {
                    viol.push(("log file grew beyond its size limit by more than one write".into(), format!("after op {} ({}): {} grew from {} to {} bytes, limit {}", oi, what, f, before, sz, size)));
                }
                if *sz > size + last_write[i].max(1) && before < *size && !faulty {
                    viol.push(("log file grew beyond its size limit by more than one write".into(), format!("after op {} ({}): {} is {} bytes, limit {} + last write {}", oi, what, f, sz, size, last_write[i])));
                }
            }
        }
        prev_sizes = std::mem::take(&mut cur_sizes);
        let ev = list(EVENT_DIR);
        if ev.len() > event_cap {
            viol.push(("event directory holds more files than its cap".into(), format!("after op {} ({}): {} files, cap {}", oi, what, ev.len(), event_cap)));
        }
        let rules: Vec<String> = list(RULES_DIR).into_iter().map(|x| x.0).filter(|n| n.starts_with("AuthorizationRules_") && n.ends_with(".json")).collect();
        if rules.len() > rules_cap {
            viol.push(("more authorization-rule dumps kept than configured".into(), format!("after op {} ({}): {} dumps, cap {}", oi, what, rules.len(), rules_cap)));
        }
        if !backward && !faulty {
            // the survivors are the newest by creation order
            let n = rules_written.len();
            let newest: Vec<&String> = rules_written[n.saturating_sub(rules.len())..].iter().collect();
            for s in rules.iter() {
                if !newest.contains(&s) {
                    viol.push(("a newer rule dump was removed while an older one was kept".into(), format!("after op {} ({}): kept {:?}, written in order {:?}", oi, what, rules, &rules_written[n.saturating_sub(6)..])));
                    break;
                }
            }
        }
        if viol.len() > 5 {
            break;
        }
    }
    run.stat("c19.ops", ops.len() as i64);
    run.stat("c19.log_files_final", list(LOG_DIR).len() as i64);
    run.stat("c19.event_files_final", list(EVENT_DIR).len() as i64);
    run.stat("c19.rule_dumps_written", rules_written.len() as i64);
    let rolled = list(LOG_DIR).iter().filter(|(f, _)| f.matches('.').count() >= 3).count();
    run.stat("c19.archived_log_files_final", rolled as i64);
    for (c, d) in viol {
        run.violate("C19", &c, d);
    }
    true
}

fn log_level() -> proxy_agent_shared::logger::LoggerLevel {
    proxy_agent_shared::logger::LoggerLevel::Info
}
