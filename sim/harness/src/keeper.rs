//! Key-keeper scenario family (C09 convergence, C10 key id / MAC pairing, C12 key confidentiality):
//! host status histories with per-step failures, key rotation, disable/enable flips; observation of the
//! agent's state at clean points through its public state API and through the policy map it wrote.

use crate::gen::{self, doc_v1, doc_v2, gen_item, gen_knobs, gen_procs, grant_all_item, host_name_of, users_json, RuleOpts};
use crate::hosts;
use crate::world::Run;
use serde_json::{json, Value};
use vrt::Rng;

// ------------------------------------------------------------------------------------------------
// reference: what a status document means

pub fn ref_modes(doc: &Value) -> (String, String, String) {
    // (wireserver, imds, hostga) modes as the document states them
    if doc["version"] == "2.0" {
        let m = |ep: &str| -> String {
            match doc["authorizationRules"][ep]["mode"].as_str() {
                Some(s) => s.to_lowercase(),
                None => "disabled".to_string(),
            }
        };
        (m("wireserver"), m("imds"), m("hostga"))
    } else {
        let st = doc["secureChannelState"].as_str().unwrap_or("disabled").to_lowercase();
        let w = if st == "wireserver" || st == "wireserverandimds" { "enforce" } else { "audit" };
        let i = if st == "wireserverandimds" { "enforce" } else { "audit" };
        (w.to_string(), i.to_string(), w.to_string())
    }
}

/// the reported channel state as one comparable value (what "the reported channel state changes" refers to)
pub fn ref_state(doc: &Value) -> String {
    if doc["version"] == "2.0" {
        if doc["secureChannelEnabled"] == true && doc["authorizationRules"].is_object() {
            let (w, i, _h) = ref_modes(doc);
            // the host-GA endpoint has no state of its own in the reported channel state
            format!("enabled w={} i={}", norm_mode(&w), norm_mode(&i))
        } else {
            "disabled".to_string()
        }
    } else {
        doc["secureChannelState"].as_str().unwrap_or("disabled").to_lowercase()
    }
}
fn norm_mode(m: &str) -> &'static str {
    match m {
        "enforce" => "enforce",
        "audit" => "audit",
        _ => "disabled",
    }
}

pub fn rule_id(doc: &Value, ep: &str) -> String {
    doc["authorizationRules"][ep]["id"].as_str().unwrap_or("").to_string()
}

// ------------------------------------------------------------------------------------------------
// observation of the agent

pub async fn observe(run: &Run) -> Value {
    let a = match &run.agent {
        Some(a) => a.clone(),
        None => return Value::Null,
    };
    let kk = a.get_key_keeper_shared_state();
    let policy = |addr: &str| -> Value {
        let sa: std::net::SocketAddrV4 = addr.parse().unwrap();
        let mut key = Vec::new();
        key.extend_from_slice(&vrt::kernel::ip_to_be32(*sa.ip()).to_ne_bytes());
        key.extend_from_slice(&[0u8; 12]);
        key.extend_from_slice(&(sa.port().to_be() as u32).to_ne_bytes());
        key.extend_from_slice(&6u32.to_ne_bytes());
        match vrt::kernel::map_peek(vrt::kernel::MAP_POLICY, &key) {
            Some(v) if v.len() == 24 => {
                let ip = vrt::kernel::be32_to_ip(u32::from_ne_bytes([v[0], v[1], v[2], v[3]]));
                let port = u16::from_be(u32::from_ne_bytes([v[16], v[17], v[18], v[19]]) as u16);
                json!(format!("{}:{}", ip, port))
            }
            Some(_) => json!("malformed"),
            None => Value::Null,
        }
    };
    let attached = vrt::kernel::with(|k| k.loaded && k.cgroup_attached && k.kprobe_attached);
    json!({
        "wire_rule_id": kk.get_wireserver_rule_id().await.unwrap_or_default(),
        "imds_rule_id": kk.get_imds_rule_id().await.unwrap_or_default(),
        "hostga_rule_id": kk.get_hostga_rule_id().await.unwrap_or_default(),
        "wire_rules_id": kk.get_wireserver_rules().await.ok().flatten().map(|r| r.id),
        "imds_rules_id": kk.get_imds_rules().await.ok().flatten().map(|r| r.id),
        "hostga_rules_id": kk.get_hostga_rules().await.ok().flatten().map(|r| r.id),
        "key_guid": kk.get_current_key_guid().await.ok().flatten(),
        "key_value": kk.get_current_key_value().await.ok().flatten(),
        "state": kk.get_current_secure_channel_state().await.unwrap_or_default(),
        "policy": {"wire": policy(hosts::WIRE), "imds": policy(hosts::IMDS), "ga": policy(hosts::GA)},
        "hooks_attached": attached,
    })
}

static DAMAGE: std::sync::atomic::AtomicU64 = std::sync::atomic::AtomicU64::new(0);
fn write_key_file(guid: &str, key: &str) {
    crate::seams::untraced(|| {
        // a key file left by an earlier agent instance lies in a directory that instance had restricted; the script
        // places one only there (a directory that is absent or unrestricted at this moment gets no file)
        use std::os::unix::fs::PermissionsExt;
        let dir = "/var/lib/azure-proxy-agent/keys";
        if std::fs::metadata(dir).is_err() && !vrt::with(|w| w.events.iter().any(|e| e.kind == "disk")) {
            // before the agent's first start: the earlier instance's directory, as that instance left it
            let _ = std::fs::create_dir_all(dir);
            let _ = std::fs::set_permissions(dir, std::fs::Permissions::from_mode(0o700));
        }
        if !std::fs::metadata(dir).map(|m| m.permissions().mode() & 0o777 == 0o700).unwrap_or(false) {
            return;
        }
        let mut body = serde_json::to_vec_pretty(&json!({"authorizationScheme": "Azure-HMAC-SHA256", "guid": guid, "issued": "2027-01-15T08:00:00Z", "key": key})).unwrap();
        // a damaged file that still holds the key value (torn write, stray trailing bytes, a broken field elsewhere)
        match DAMAGE.swap(0, std::sync::atomic::Ordering::SeqCst) {
            1 => body.extend_from_slice(b"}}garbage"),
            2 => {
                let n = body.len();
                body.truncate(n - 2);
            }
            3 => {
                if let Some(p) = body.windows(6).position(|w| w == b"issued") {
                    body[p - 1] = b' '; // the opening quote of a field name is gone
                }
            }
            _ => {}
        }
        let _ = std::fs::write(format!("{}/{}.key", dir, guid), body);
    })
}

pub async fn custom_step(run: &mut Run, idx: usize, kind: &str, s: &Value) -> bool {
    match kind {
        "own_calls" => {
            // the agent's own host clients (goal state, shared config, instance metadata), driven through their public API
            // with the running agent's shared state, in the background: their signatures are judged at the host like
            // every other request (C04/C10), while the key keeper rotates keys and the host fails some answers
            if let Some(agent) = run.agent.clone() {
                let n = s["n"].as_u64().unwrap_or(20);
                let gap = s["gap_ms"].as_u64().unwrap_or(50);
                let which = s["which"].as_u64().unwrap_or(0);
                let kk = agent.get_key_keeper_shared_state();
                vrt::sched::spawn_perturbed(async move {
                    use azure_proxy_agent::host_clients::imds_client::ImdsClient;
                    use azure_proxy_agent::host_clients::wire_server_client::WireServerClient;
                    let ws = WireServerClient::new("168.63.129.16", 80, kk.clone());
                    let imds = ImdsClient::new("169.254.169.254", 80, kk.clone());
                    for i in 0..n {
                        match (which + i) % 3 {
                            0 => {
                                if let Ok(gs) = ws.get_goalstate().await {
                                    let _ = ws.get_shared_config(gs.get_shared_config_uri()).await;
                                }
                            }
                            1 => {
                                let _ = ws.get_goalstate().await;
                            }
                            _ => {
                                let _ = imds.get_imds_instance_info().await;
                            }
                        }
                        let _ = vrt::try_with(|w| w.count("probe.own_call_rounds"));
                        tokio::time::sleep(std::time::Duration::from_millis(gap)).await;
                    }
                });
            }
            true
        }
        "host_latch" => {
            let mut g = run.hosts.lock().unwrap();
            match s["mode"].as_str().unwrap_or("new") {
                "none" => g.set_latched(None),
                "rotate_with_file" | "rotate_with_damaged_file" => {
                    let k = g.new_key();
                    if s["mode"] == "rotate_with_damaged_file" {
                        DAMAGE.store(1 + (g.key_counter % 3), std::sync::atomic::Ordering::SeqCst);
                    }
                    write_key_file(&k.0, &k.1);
                    g.history.push(format!("script: host latches {} (file present locally)", k.0));
                    g.set_latched(Some(k));
                }
                _ => {
                    let k = g.new_key();
                    g.history.push(format!("script: host latches {} (no local file)", k.0));
                    g.set_latched(Some(k));
                }
            }
            true
        }
        "observe" => {
            let label = s["label"].as_str().unwrap_or("obs").to_string();
            let mut o = observe(run).await;
            {
                let g = run.hosts.lock().unwrap();
                o["host_latched"] = json!(g.latched.as_ref().map(|x| x.0.clone()));
                o["host_doc"] = g.status_doc.clone();
                o["status_calls"] = json!(g.status_calls);
                o["clean"] = s["clean"].clone();
                o["step"] = json!(idx);
                o["pending_faults"] = json!(g.faults.values().map(|q| q.len()).sum::<usize>());
                o["served_states"] = json!(g.served_states.iter().map(|(a, b)| json!([a, b])).collect::<Vec<_>>());
            }
            run.observations.push((label, vrt::time::now_ns(), o));
            true
        }
        "wait_status_calls" => {
            // wait until the host has seen `n` more status requests (answered or not)
            let n = s["n"].as_u64().unwrap_or(1);
            let (notify, base) = {
                let g = run.hosts.lock().unwrap();
                (g.notify.clone(), g.status_calls)
            };
            let deadline = tokio::time::Instant::now() + std::time::Duration::from_secs(s["max_s"].as_u64().unwrap_or(120));
            loop {
                if run.hosts.lock().unwrap().status_calls >= base + n {
                    break;
                }
                if tokio::time::timeout_at(deadline, notify.notified()).await.is_err() {
                    run.notes.push(format!("step {}: wait_status_calls timed out", idx));
                    break;
                }
            }
            true
        }
        _ => false,
    }
}

// ------------------------------------------------------------------------------------------------
// generators

fn gen_keeper_doc(r: &mut Rng, procs: &Value, serial: u64, hostga_follows_wire: bool) -> Value {
    let o = RuleOpts { allow_upper_paths: false, allow_dup_names: false, allow_missing_sections: false, allow_dangling: false };
    match r.below(8) {
        0 => doc_v1("disabled"),
        1 => doc_v1(*r.pick(&["wireserver", "wireserverandimds", "WireServer"])),
        2 => doc_v2(false, Some(json!({}))),
        3 => doc_v2(true, None),
        _ => {
            let mut rules = serde_json::Map::new();
            let wmode = *r.pick(&["enforce", "audit", "disabled"]);
            for ep in ["imds", "wireserver", "hostga"] {
                if r.chance(5, 6) {
                    let mode = if ep == "wireserver" {
                        wmode
                    } else if ep == "hostga" && hostga_follows_wire {
                        wmode
                    } else {
                        *r.pick(&["enforce", "audit", "disabled"])
                    };
                    let da = *r.pick(&["allow", "deny"]);
                    let item = if r.chance(1, 2) { grant_all_item(&format!("{}-{}", ep, serial), mode, da, None) } else { gen_item(r, &format!("{}-{}", ep, serial), procs, &o, mode, da) };
                    rules.insert(ep.to_string(), item);
                }
            }
            if hostga_follows_wire && rules.contains_key("wireserver") != rules.contains_key("hostga") {
                rules.remove("hostga");
                if let Some(w) = rules.get("wireserver").cloned() {
                    let mut h = w;
                    h["id"] = json!(format!("hostga-{}", serial));
                    rules.insert("hostga".into(), h);
                }
            }
            doc_v2(true, Some(Value::Object(rules)))
        }
    }
}

/// a status document that parses but does not validate (a required field missing or out of range) and that carries
/// rule sets of its own: a poll that gets it "returns an invalid document" and must change nothing
fn invalid_status_doc(r: &mut Rng) -> String {
    let serial = r.below(1_000_000);
    let rules = json!({
        "imds": grant_all_item(&format!("inv-imds-{}", serial), *r.pick(&["audit", "enforce", "disabled"]), *r.pick(&["allow", "deny"]), None),
        "wireserver": grant_all_item(&format!("inv-ws-{}", serial), *r.pick(&["audit", "enforce", "disabled"]), *r.pick(&["allow", "deny"]), None),
        "hostga": grant_all_item(&format!("inv-ga-{}", serial), *r.pick(&["audit", "enforce"]), "allow", None),
    });
    let mut d = match r.below(4) {
        // version 2.0 without secureChannelEnabled
        0 => json!({"authorizationScheme": "Azure-HMAC-SHA256", "keyDeliveryMethod": "http", "keyGuid": null, "version": "2.0", "authorizationRules": rules}),
        // version 1.0 with an unknown secureChannelState
        1 => json!({"authorizationScheme": "Azure-HMAC-SHA256", "keyDeliveryMethod": "http", "keyGuid": null, "version": "1.0", "secureChannelState": "sometimes", "requiredClaimsHeaderPairs": ["isRoot"], "authorizationRules": rules}),
        // version 1.0 without secureChannelState
        2 => json!({"authorizationScheme": "Azure-HMAC-SHA256", "keyDeliveryMethod": "http", "keyGuid": null, "version": "1.0", "requiredClaimsHeaderPairs": ["isRoot"], "authorizationRules": rules}),
        // neither
        _ => json!({"authorizationScheme": "Azure-HMAC-SHA256", "keyDeliveryMethod": "http", "keyGuid": null, "version": "3.0", "authorizationRules": rules}),
    };
    if r.chance(1, 4) {
        d["secureChannelState"] = json!("Bogus");
    }
    d.to_string()
}

fn gen_host_fault(r: &mut Rng, kind: &str) -> Value {
    if kind == "status" && r.chance(1, 4) {
        return json!({"t": "host_fault", "kind": kind, "fault": {"f": "malformed", "body": invalid_status_doc(r), "ctype": "application/json; charset=utf-8"}});
    }
    let f = match r.below(7) {
        0 => json!({"f": "status", "status": *r.pick(&[500u64, 503, 404, 429])}),
        1 => json!({"f": "malformed", "body": *r.pick(&["{", "not json", "{\"authorizationScheme\": 5}", "[]", ""]), "ctype": "application/json"}),
        2 => json!({"f": "reset_before"}),
        3 => json!({"f": "reset_after"}),
        4 => json!({"f": "stall", "ms": 100 + r.below(20000)}),
        5 => json!({"f": "cut", "n": 1 + r.below(120)}),
        _ => json!({"f": "status_body", "status": 500, "body": "internal error, try later", "ctype": "text/plain"}),
    };
    json!({"t": "host_fault", "kind": kind, "fault": f})
}

/// C09: 3..12 script steps; each: change something at the host, optionally inject per-step failures, then reach
/// a clean point and observe. In between, "failed poll" episodes check that a failing poll changes nothing.
pub fn gen_c09(seed: u64, tier: &str) -> Value {
    let mut r = Rng::derive(seed, "host");
    let procs = gen_procs(&mut r, 3, true);
    let hostga_follows = !r.chance(1, 5);
    let mut steps = Vec::new();
    let nsteps = 3 + r.below(if tier == "thorough" { 10 } else { 6 });
    let interval = 1 + r.below(15);
    let mut tokn = 0u64;
    for k in 0..nsteps {
        // a transient answer first: the host reports something, key negotiation fails while it is in force, and the
        // report changes again before the agent ever got through - what the agent keeps from the abandoned attempt
        // must not survive into the next clean state
        if r.chance(1, 3) {
            steps.push(json!({"t": "doc", "doc": gen_keeper_doc(&mut r, &procs, 100 + k, hostga_follows)}));
            if r.chance(1, 2) {
                steps.push(json!({"t": "host_latch", "mode": "none"}));
            }
            for _ in 0..1 + r.below(2) {
                let kind = *r.pick(&["acquire", "attest", "attest"]);
                let f = match r.below(3) {
                    0 => json!({"f": "status", "status": *r.pick(&[500u64, 503, 403])}),
                    1 => json!({"f": "reset_before"}),
                    _ => json!({"f": "reset_after"}),
                };
                steps.push(json!({"t": "host_fault", "kind": kind, "fault": f}));
            }
            steps.push(json!({"t": "drain_faults", "max_s": 60}));
        }
        // change
        match r.below(6) {
            0 => steps.push(json!({"t": "host_latch", "mode": *r.pick(&["none", "new", "rotate_with_file"])})),
            _ => steps.push(json!({"t": "doc", "doc": gen_keeper_doc(&mut r, &procs, k, hostga_follows)})),
        }
        if r.chance(1, 6) {
            steps.push(json!({"t": "host_latch", "mode": *r.pick(&["none", "new", "rotate_with_file"])}));
        }
        // per-step failures before the clean poll
        for _ in 0..r.below(3) {
            let kind = *r.pick(&["status", "status", "acquire", "attest"]);
            steps.push(gen_host_fault(&mut r, kind));
        }
        if r.chance(1, 4) {
            steps.push(json!({"t": "clients", "conns": [{"proc": 0, "dst": "direct", "start_ms": r.below(2000), "reqs": [{"method": "GET", "target": "/provision", "headers": [["Host", "127.0.0.1:3080"], ["Metadata", "true"], ["x-ms-azure-time_tick", "99999999999999999999999999"], ["x-ms-azure-notify", "true"]], "tok": format!("pv{}", k)}]}]}));
        }
        // reach a clean point: no pending faults, two complete polls of this version
        steps.push(json!({"t": "drain_faults", "max_s": 400}));
        steps.push(json!({"t": "wait_polls", "n": 2, "max_s": 600}));
        steps.push(json!({"t": "sleep", "ms": 50}));
        steps.push(json!({"t": "observe", "label": "clean", "clean": true}));
        // behaviour probe under the applied document
        if r.chance(1, 2) {
            let mut conns = Vec::new();
            for _ in 0..1 + r.below(2) {
                let dst = *r.pick(&["imds", "wire", "ga"]);
                tokn += 1;
                conns.push(json!({"proc": r.below(3), "dst": dst, "start_ms": 0, "reqs": [{"method": "GET", "target": *r.pick(&["/metadata/instance?api-version=2018-02-01", "/machine?comp=goalstate", "/vmSettings"]), "headers": [["Host", host_name_of(dst)], ["Metadata", "true"]], "tok": format!("t{}", tokn)}]}));
            }
            steps.push(json!({"t": "clients", "conns": conns}));
        }
        // a failing poll must change nothing
        if r.chance(1, 2) {
            steps.push(json!({"t": "observe", "label": "before_failed_poll", "clean": false}));
            let mut f = gen_host_fault(&mut r, "status");
            // only faults that make the status request fail or return an invalid document
            if f["fault"]["f"] == "stall" || f["fault"]["f"] == "reset_after" {
                f["fault"] = json!({"f": "status", "status": 503});
            }
            steps.push(f);
            steps.push(json!({"t": "wait_status_calls", "n": 1, "max_s": 120}));
            steps.push(json!({"t": "sleep", "ms": 300}));
            steps.push(json!({"t": "observe", "label": "after_failed_poll", "clean": false}));
            steps.push(json!({"t": "drain_faults", "max_s": 200}));
        }
    }
    let knobs = gen_knobs(&mut r, true);
    json!({
        "scenario": "keeper:C09", "seed": seed, "family": "keeper", "prop": "C09", "hostga_follows_wire": hostga_follows,
        "knobs": knobs, "procs": procs, "users": users_json(), "steps": steps, "oracles": ["C09", "C01", "C04"],
        "config": {"pollKeyStatusIntervalInSeconds": interval}, "settle_ms": 1000, "faulty": false,
        "arm": if r.chance(1, 3) { json!({"aya.load_file": r.below(3), "aya.attach.connect4": r.below(2)}) } else { json!({}) },
    })
}

/// C10: steady request load on keep-alive connections (bodies in many small fragments) while the host rotates
/// keys, flips to disabled and back, and reports no key; heavy / PCT-like scheduling profiles.
pub fn gen_c10(seed: u64, tier: &str) -> Value {
    let mut r = Rng::derive(seed, "host");
    let procs = gen_procs(&mut r, 3, true);
    let mut steps = Vec::new();
    steps.push(json!({"t": "doc", "doc": doc_v1("wireserver"), "latch": "keep"}));
    steps.push(json!({"t": "wait_polls", "n": 2, "max_s": 300}));
    let rounds = 2 + r.below(if tier == "thorough" { 6 } else { 4 });
    let mut tokn = 0u64;
    let faults = r.chance(1, 3);
    let own_calls = r.chance(1, 2);
    for k in 0..rounds {
        // load that overlaps the rotation: clients start at staggered offsets within the next few seconds
        let mut conns = Vec::new();
        for _ in 0..2 + r.below(4) {
            let dst = *r.pick(&["imds", "wire", "ga", "imds"]);
            let mut reqs = Vec::new();
            for _ in 0..3 + r.below(10) {
                tokn += 1;
                let mut q = json!({"method": *r.pick(&["GET", "POST", "PUT"]), "target": format!("/metadata/instance?n={}", tokn), "headers": [["Host", host_name_of(dst)], ["Metadata", "true"]], "tok": format!("t{}", tokn)});
                if q["method"] != "GET" {
                    q["body"] = json!({"len": r.below(3000), "seed": r.next() >> 8, "ascii": true});
                }
                reqs.push(q);
            }
            conns.push(json!({"proc": 0, "dst": dst, "start_ms": r.below(1500), "pipeline": false, "gap_ms": r.below(120), "reqs": reqs}));
        }
        // the rotation itself is a step that runs concurrently: it is placed *inside* the clients step
        let rot = match r.below(6) {
            0 | 5 => json!({"t": "doc", "doc": doc_v1("disabled")}),
            1 => json!({"t": "host_latch", "mode": "none"}),
            2 => json!({"t": "host_latch", "mode": "new"}),
            _ => json!({"t": "host_latch", "mode": "rotate_with_file"}),
        };
        if own_calls {
            // the agent's own clients call the host all along this round
            steps.push(json!({"t": "own_calls", "n": 5 + r.below(40), "gap_ms": *r.pick(&[1u64, 10, 60, 250]), "which": r.below(3)}));
            // some of those calls fail at the host, so that whatever the clients do after a failure (retry, fall back)
            // happens while keys rotate
            for _ in 0..r.below(4) {
                let f = match r.below(3) {
                    0 => json!({"f": "status", "status": *r.pick(&[500u64, 503])}),
                    1 => json!({"f": "reset_before"}),
                    _ => json!({"f": "reset_after"}),
                };
                steps.push(json!({"t": "host_fault", "kind": *r.pick(&["goalstate", "goalstate", "sharedconfig", "imds_instance"]), "fault": f}));
            }
        }
        if faults {
            // the rotation meets a host that fails or stalls key negotiation steps, and an upstream that misbehaves
            for _ in 0..r.below(3) {
                let kind = *r.pick(&["acquire", "attest", "status", "goalstate", "sharedconfig", "imds_instance", "goalstate"]);
                let f = match r.below(4) {
                    0 => json!({"f": "status", "status": *r.pick(&[500u64, 503])}),
                    1 => json!({"f": "reset_after"}),
                    2 => json!({"f": "reset_before"}),
                    _ => json!({"f": "stall", "ms": *r.pick(&[5u64, 200, 1500])}),
                };
                steps.push(json!({"t": "host_fault", "kind": kind, "fault": f}));
            }
            crate::gen::gen_upstream_faults(&mut r, &mut steps);
        }
        steps.push(json!({"t": "clients_with", "conns": conns, "during": [{"after_ms": r.below(1200), "do": rot}], "round": k}));
        if faults {
            steps.push(json!({"t": "clear_faults"}));
        }
        if r.chance(1, 3) {
            steps.push(json!({"t": "doc", "doc": doc_v1(*r.pick(&["wireserver", "wireserverandimds"]))}));
        }
        if r.chance(1, 2) {
            steps.push(json!({"t": "wait_polls", "n": 1, "max_s": 100}));
        }
    }
    let mut knobs = gen_knobs(&mut r, true);
    knobs["net.frag_ppm"] = json!(900_000);
    knobs["net.lat_max_ms"] = json!(*r.pick(&[1u64, 2, 5]));
    if r.chance(1, 3) {
        // the key keeper is the slow task of the run: whatever it does to the stored key in several steps (latch, clear,
        // replace) is stretched over many signing requests
        knobs["sched.profile"] = json!(1);
        knobs["sched.victim_a"] = json!(6);
        knobs["sched.victim_b"] = json!(-1);
        knobs["sched.victim_ms"] = json!(1 + r.below(12));
    }
    json!({
        "scenario": "keeper:C10", "seed": seed, "family": "keeper", "prop": "C10", "rotating": true,
        "knobs": knobs, "procs": procs, "users": users_json(), "steps": steps, "oracles": ["C10"],
        "config": {"pollKeyStatusIntervalInSeconds": 1}, "settle_ms": 1500, "faulty": false,
    })
}

// ------------------------------------------------------------------------------------------------
// oracle C09

pub fn check_c09(run: &mut Run) {
    let plan = run.plan.clone();
    let follows = plan["hostga_follows_wire"].as_bool().unwrap_or(true);
    let obs = run.observations.clone();
    let mut viol: Vec<(String, String)> = Vec::new();
    let mut last_state: Option<String> = None; // reference state at the previous clean point
    let mut before: Option<Value> = None;
    let mut n_clean = 0i64;
    let mut n_failed = 0i64;
    let mut n_state_changes = 0i64;
    let mut n_not_judged = 0i64;
    for (label, _t, o) in obs.iter() {
        if !o.is_object() {
            continue;
        }
        match label.as_str() {
            "clean" => {
                if o["pending_faults"].as_u64().unwrap_or(0) > 0 {
                    continue; // not a clean point after all
                }
                n_clean += 1;
                let doc = &o["host_doc"];
                let enabled = crate::oracle::doc_enabled(doc);
                // rules: the ones in the latest document, or none
                for (ep, idk, rk) in [("wireserver", "wire_rule_id", "wire_rules_id"), ("imds", "imds_rule_id", "imds_rules_id"), ("hostga", "hostga_rule_id", "hostga_rules_id")] {
                    let want = crate::keeper::rule_id(doc, ep);
                    let got = o[idk].as_str().unwrap_or("");
                    if got != want {
                        viol.push(("rules enforced are not the ones in the latest document".into(), format!("{} rule id: agent {:?}, document {:?} (step {})", ep, got, want, o["step"])));
                    }
                    let has = doc["authorizationRules"][ep].is_object();
                    let got_rules = o[rk].as_str();
                    if has != got_rules.is_some() || (has && got_rules != Some(want.as_str())) {
                        viol.push(("rules enforced are not the ones in the latest document".into(), format!("{} rules: agent {:?}, document id {:?} present={} (step {})", ep, got_rules, want, has, o["step"])));
                    }
                }
                // key
                if enabled {
                    let hl = o["host_latched"].as_str();
                    let ak = o["key_guid"].as_str();
                    if hl.is_none() || ak != hl {
                        viol.push(("key used is not the one the host names as latched".into(), format!("agent key {:?}, host latched {:?} (step {})", ak, hl, o["step"])));
                    }
                } else if !o["key_guid"].is_null() {
                    viol.push(("channel reported disabled but the agent still holds a key".into(), format!("agent key {:?} (step {})", o["key_guid"], o["step"])));
                }
                // interception, judged when the reported channel state changed since the previous clean point
                let st = ref_state(doc);
                // "whenever the reported channel state changes": the obligation attaches to the answer at which the state
                // the host reports last changed. Answers in between clean points count (the agent polled them): find the
                // answer that opened the current run of equal reported states, and judge only if the endpoints it
                // switches on are the ones the current document switches on (a later document with the same reported
                // state but other per-endpoint modes - e.g. after a protocol-version change - is not a state change)
                let served: Vec<(String, String)> = o["served_states"].as_array().map(|a| a.iter().map(|x| (x[0].as_str().unwrap_or("").to_string(), x[1].as_str().unwrap_or("").to_string())).collect()).unwrap_or_default();
                let change_answer = {
                    let mut idx = served.len();
                    while idx > 0 && served[idx - 1].0 == st {
                        idx -= 1;
                    }
                    served.get(idx).cloned()
                };
                let cur_triple = {
                    let (w, i, h) = ref_modes(doc);
                    let on = |m: &str| norm_mode(m) != "disabled";
                    format!("{}{}{}", on(&w) as u8, on(&i) as u8, on(&h) as u8)
                };
                let same_switches = change_answer.as_ref().map(|(_, t)| *t == cur_triple).unwrap_or(true);
                if last_state.as_ref() != Some(&st) && !same_switches {
                    n_not_judged += 1;
                }
                if last_state.as_ref() != Some(&st) && same_switches {
                    n_state_changes += 1;
                    if o["hooks_attached"] == true {
                        let (w, i, h) = ref_modes(doc);
                        let (w, i, h) = if crate::oracle::doc_enabled(doc) || doc["version"] != "2.0" { (w, i, h) } else { (w, i, h) };
                        for (name, mode, key) in [("WireServer", w.clone(), "wire"), ("IMDS", i.clone(), "imds"), ("HostGAPlugin", h.clone(), "ga")] {
                            let want_on = norm_mode(&mode) != "disabled";
                            let got = o["policy"][key].as_str();
                            let on = got == Some(hosts::PROXY);
                            if got.is_some() && !on {
                                viol.push(("endpoint redirected to something other than the proxy listener".into(), format!("{} -> {:?} (step {})", name, got, o["step"])));
                            } else if on != want_on {
                                let explained = name == "HostGAPlugin" && !follows && (norm_mode(&w) != "disabled") == on;
                                // the first reported state after start is applied by two tasks that race: the redirector
                                // (reads the modes, fills the map, publishes the map object) and the key keeper (stores the
                                // rules, then updates the map - a no-op while no object is published)
                                let first = n_state_changes == 1;
                                viol.push((
                                    format!("endpoint interception does not follow its mode after a channel state change{}", if explained { " [explained by: HostGAPlugin interception follows the WireServer mode]" } else if first { " [first state after start: key keeper's policy update raced with redirector start-up]" } else { "" }),
                                    format!("{} mode={} intercepted={} (step {})", name, mode, on, o["step"]),
                                ));
                            }
                        }
                    }
                }
                last_state = Some(st);
            }
            "before_failed_poll" => before = Some(o.clone()),
            "after_failed_poll" => {
                if let Some(b) = before.take() {
                    n_failed += 1;
                    // only judged when exactly the failing poll happened in between
                    if o["status_calls"].as_u64().unwrap_or(0) == b["status_calls"].as_u64().unwrap_or(0) + 1 {
                        for k in ["wire_rule_id", "imds_rule_id", "hostga_rule_id", "wire_rules_id", "imds_rules_id", "hostga_rules_id", "key_guid", "state", "policy"] {
                            if o[k] != b[k] {
                                viol.push(("a failed status poll changed the agent's state".into(), format!("{}: {} -> {} (step {})", k, b[k], o[k], o["step"])));
                            }
                        }
                    }
                }
            }
            _ => {}
        }
    }
    run.stat("c09.clean_points", n_clean);
    run.stat("c09.failed_poll_episodes", n_failed);
    run.stat("c09.state_changes_judged", n_state_changes);
    run.stat("c09.state_changes_not_judged_other_switches_at_change_answer", n_not_judged);
    for (c, d) in viol {
        run.violate("C09", &c, d);
    }
}

// ------------------------------------------------------------------------------------------------
// C12: the key value never leaves the key store

/// C09-style histories biased towards everything that handles key material: defective key documents that still
/// contain the value, non-hex / odd-length keys, attest failures, rotation, disable/enable, /provision queries,
/// allowed and denied client requests at the shipped (Trace) log level.
pub fn gen_c12(seed: u64, tier: &str) -> Value {
    let mut r = Rng::derive(seed, "host");
    let procs = gen_procs(&mut r, 3, true);
    let mut steps = Vec::new();
    let nsteps = 2 + r.below(if tier == "thorough" { 8 } else { 5 });
    let mut tokn = 0u64;
    for k in 0..nsteps {
        match r.below(5) {
            0 => steps.push(json!({"t": "host_latch", "mode": *r.pick(&["none", "new", "rotate_with_file", "rotate_with_damaged_file", "rotate_with_damaged_file"])})),
            1 => steps.push(json!({"t": "doc", "doc": doc_v1("disabled")})),
            _ => {
                let d = if r.chance(1, 2) { doc_v1(*r.pick(&["wireserver", "wireserverandimds"])) } else { doc_v2(true, Some(json!({"imds": grant_all_item(&format!("imds-{}", k), *r.pick(&["enforce", "audit"]), *r.pick(&["allow", "deny"]), Some(&procs[r.below(3) as usize]))}))) };
                steps.push(json!({"t": "doc", "doc": d}));
                if r.chance(1, 2) {
                    steps.push(json!({"t": "host_latch", "mode": "none"})); // force a fresh acquire
                }
            }
        }
        for _ in 0..r.below(3) {
            match r.below(6) {
                0 | 1 | 2 => steps.push(json!({"t": "host_fault", "kind": "acquire", "fault": {"f": "key_doc", "variant": *r.pick(&["missing_issued", "wrong_type", "truncated", "utf16", "xml_type", "nonhex", "oddlen"])}})),
                3 => steps.push(json!({"t": "host_fault", "kind": "attest", "fault": {"f": "status", "status": *r.pick(&[403u64, 500, 503])}})),
                4 => steps.push(json!({"t": "host_fault", "kind": "attest", "fault": {"f": "reset_after"}})),
                _ => steps.push(json!({"t": "host_fault", "kind": "status", "fault": {"f": "status", "status": 503}})),
            }
        }
        if r.chance(1, 12) {
            // the key directory disappears under the running agent (clean-up tool, operator)
            steps.push(json!({"t": "rm_path", "path": "/var/lib/azure-proxy-agent/keys"}));
            steps.push(json!({"t": "host_latch", "mode": "new"}));
        }
        steps.push(json!({"t": "drain_faults", "max_s": 300}));
        steps.push(json!({"t": "wait_polls", "n": 2, "max_s": 400}));
        let mut conns = Vec::new();
        for _ in 0..1 + r.below(3) {
            let dst = *r.pick(&["imds", "wire", "direct", "ga"]);
            tokn += 1;
            let target = if dst == "direct" { "/provision".to_string() } else { r.pick(&["/metadata/instance?api-version=2018-02-01", "/machine?comp=goalstate", "/metadata/identity/oauth2/token?resource=x"]).to_string() };
            let mut hs = vec![json!(["Host", host_name_of(dst)]), json!(["Metadata", "true"])];
            if dst == "direct" {
                hs.push(json!(["x-ms-azure-time_tick", *r.pick(&["0", "99999999999999999999999999999", "abc"])]));
                if r.chance(1, 2) {
                    hs.push(json!(["x-ms-azure-notify", "true"]));
                }
            }
            conns.push(json!({"proc": r.below(3), "dst": dst, "start_ms": r.below(50), "reqs": [{"method": "GET", "target": target, "headers": hs, "tok": format!("t{}", tokn)}]}));
        }
        // clients that go away while their request is being handled: the handler is cancelled at whatever await it has
        // reached (rule lookups, the key read, the upstream call)
        if r.chance(1, 2) {
            for _ in 0..1 + r.below(6) {
                let dst = *r.pick(&["imds", "wire", "ga"]);
                tokn += 1;
                let how = format!("{}:{}:{}", *r.pick(&["reset_after_send", "reset_after_send", "fin_after_send"]), *r.pick(&[0u64, 0, 0, 1, 3]), r.below(40));
                conns.push(json!({"proc": 0, "dst": dst, "start_ms": r.below(50), "close": how, "reqs": [{"method": *r.pick(&["GET", "POST"]), "target": "/metadata/instance?api-version=2018-02-01", "headers": [["Host", host_name_of(dst)], ["Metadata", "true"]], "tok": format!("t{}", tokn)}]}));
            }
        }
        steps.push(json!({"t": "clients", "conns": conns}));
    }
    // let the status and telemetry tasks publish (they start one minute after start at the latest)
    steps.push(json!({"t": "sleep", "ms": 200_000}));
    let knobs = gen_knobs(&mut r, false);
    let mut disk_faults = Vec::new();
    if r.chance(1, 8) {
        // creating the key directory fails at start-up (the directory stays absent)
        disk_faults.push(json!({"op": "mkdir", "path": "azure-proxy-agent/keys", "nth": 1, "errno": *r.pick(&[5i64, 13, 28]), "short": 0}));
    }
    if r.chance(1, 10) {
        // restricting the directory fails at start-up
        disk_faults.push(json!({"op": *r.pick(&["chmod", "chown"]), "path": "azure-proxy-agent/keys", "nth": 1, "errno": 1, "short": 0}));
    }
    let mut never_restricted = false;
    if r.chance(1, 8) {
        // the directory can never be restricted (every chmod fails): no key may ever be written into it
        disk_faults.push(json!({"op": "chmod", "path": "azure-proxy-agent/keys", "nth": 0, "errno": *r.pick(&[1i64, 30]), "short": 0}));
        never_restricted = true;
    }
    if r.chance(1, 4) {
        // saving a key fails: creating or writing the temporary file, or renaming it into place (full disk, I/O error)
        for _ in 0..1 + r.below(2) {
            let (op, path) = *r.pick(&[("open", "keys/"), ("write", "keys/"), ("rename", "keys/"), ("write", ".tmp")]);
            disk_faults.push(json!({"op": op, "path": path, "nth": 1 + r.below(6), "errno": *r.pick(&[28i64, 5, 30]), "short": 0}));
        }
    }
    json!({
        "scenario": "keeper:C12", "seed": seed, "family": "keeper", "prop": "C12", "disk_faults": disk_faults,
        "knobs": knobs, "procs": procs, "users": users_json(), "steps": steps, "oracles": ["C12"],
        "key_hex_upper": r.chance(1, 2),
        // (a host that is asked for a fresh key at every poll issues hundreds of keys per run, each one a taint to look
        // for: such runs poll slowly)
        "config": {"pollKeyStatusIntervalInSeconds": if never_restricted { 20 + r.below(20) } else { 1 + r.below(10) }}, "settle_ms": 1000, "faulty": true,
    })
}

fn run_stat_c12_recreated(run: &mut Run) {
    run.stat("c12.key_dir_created_or_removed", 1);
}

/// all taints at once: index by the first 8 bytes, one pass over the haystack; returns (position, taint index) of the
/// first hit (taints shorter than 8 bytes do not occur: key values are 32 bytes raw or 64 hex characters)
struct TaintIndex<'a> {
    by_prefix: std::collections::HashMap<[u8; 8], Vec<usize>>,
    taints: &'a [(String, Vec<u8>)],
}
impl<'a> TaintIndex<'a> {
    fn new(taints: &'a [(String, Vec<u8>)]) -> Self {
        let mut by_prefix: std::collections::HashMap<[u8; 8], Vec<usize>> = std::collections::HashMap::new();
        for (i, (_, t)) in taints.iter().enumerate() {
            if t.len() >= 8 {
                let mut p = [0u8; 8];
                p.copy_from_slice(&t[..8]);
                by_prefix.entry(p).or_default().push(i);
            }
        }
        TaintIndex { by_prefix, taints }
    }
    fn first_hit(&self, hay: &[u8]) -> Option<(usize, usize)> {
        if hay.len() < 8 {
            return None;
        }
        for pos in 0..=hay.len() - 8 {
            let mut p = [0u8; 8];
            p.copy_from_slice(&hay[pos..pos + 8]);
            if let Some(c) = self.by_prefix.get(&p) {
                for &i in c {
                    let t = &self.taints[i].1;
                    if hay.len() - pos >= t.len() && &hay[pos..pos + t.len()] == t.as_slice() {
                        return Some((pos, i));
                    }
                }
            }
        }
        None
    }
}

fn find(hay: &[u8], needle: &[u8]) -> Option<usize> {
    if needle.is_empty() || hay.len() < needle.len() {
        return None;
    }
    hay.windows(needle.len()).position(|w| w == needle)
}

pub fn check_c12(run: &mut Run) {
    let key_dir = "/var/lib/azure-proxy-agent/keys/";
    // taints: every key value the host ever issued, in the spellings a leak could take
    let mut taints: Vec<(String, Vec<u8>)> = Vec::new();
    {
        let g = run.hosts.lock().unwrap();
        for (guid, key) in g.issued.iter() {
            taints.push((guid.clone(), key.as_bytes().to_vec()));
            taints.push((guid.clone(), key.to_lowercase().into_bytes()));
            taints.push((guid.clone(), key.to_uppercase().into_bytes()));
            if let Some(raw) = crate::crypto::unhex(key) {
                taints.push((guid.clone(), raw));
            }
        }
    }
    taints.sort();
    taints.dedup();
    let mut viol: Vec<(String, String)> = Vec::new();
    let mut scanned = 0i64;
    let mut scanned_bytes = 0i64;
    let index = TaintIndex::new(&taints);
    let cap = crate::seams::take_capture();
    for (class, data) in cap.iter() {
        let is_key_file = class.starts_with(key_dir) && (class.ends_with(".key") || class.ends_with(".tmp")) && !class.contains("status.tag");
        if is_key_file {
            continue;
        }
        scanned += 1;
        scanned_bytes += data.len() as i64;
        if let Some((pos, ti)) = index.first_hit(data) {
            let guid = &taints[ti].0;
            {
                let a = pos.saturating_sub(160);
                let ctx = String::from_utf8_lossy(&data[a..pos]).replace(|c: char| c.is_control(), " ");
                let sink = if class.starts_with("/var/log/azure-proxy-agent/events") { "telemetry event file".to_string() } else { class.clone() };
                let site = ["Failed to json deserialize", "Failed to xml deserialize", "Hex encoded key", "Failed to attest", "Failed to acquire", "compute_signature"].iter().find(|s| ctx.contains(**s)).map(|s| s.to_string()).unwrap_or_else(|| "other text".to_string());
                viol.push((format!("key value written to {} (in: {})", sink_kind(&sink), site), format!("key of {} found in {} at offset {}; preceding text: ...{}", guid, sink, pos, ctx.chars().rev().take(120).collect::<String>().chars().rev().collect::<String>())));
            }
        }
    }
    // bytes returned to local clients
    for (_pi, cp, cr) in run.conns.iter() {
        for res in cr.results.iter() {
            if let Some(m) = &res.resp {
                scanned += 1;
                if let Some((_, ti)) = index.first_hit(&m.head.raw).or_else(|| index.first_hit(&m.body)) {
                    viol.push(("key value returned to a local client".into(), format!("key of {} in the response to tok={} ({})", taints[ti].0, res.tok, cp.dst_name)));
                }
            }
        }
    }
    // telemetry uploads
    {
        let g = run.hosts.lock().unwrap();
        for rv in g.log.iter().filter(|r| r.kind == "telemetry") {
            scanned += 1;
            if let Some((_, ti)) = index.first_hit(&rv.msg.body) {
                viol.push(("key value uploaded in a telemetry batch".into(), format!("key of {}", taints[ti].0)));
            }
        }
    }
    // the key directory is restricted before the first key file is created in it
    let events = vrt::with(|w| w.events.iter().filter(|e| e.kind == "disk").map(|e| e.text.clone()).collect::<Vec<_>>());
    // state, not calls: the directory's mode and owner are sampled by the open seam at the instant of every creation
    let mut first_key_create = false;
    let mut reported = false;
    for e in events.iter() {
        if (e.starts_with("mkdir /var/lib/azure-proxy-agent/keys ") && e.ends_with("-> ok")) || (e.starts_with("env-remove /var/lib/azure-proxy-agent") && e.ends_with("-> ok")) {
            run_stat_c12_recreated(run);
        }
        if e.starts_with("open /var/lib/azure-proxy-agent/keys/") && e.contains("+creat") && (e.contains(".key ") || e.contains(".tmp ")) && !e.contains("status.tag") && e.contains("-> ok") {
            first_key_create = true;
            let restricted = e.contains(" dir=700/uid0");
            if !restricted && !reported {
                reported = true;
                viol.push(("key file created before the key directory was restricted".into(), e.clone()));
            }
        }
    }
    // at the end: a directory that holds a key file is root-only (a re-created directory holding only tag files is not judged)
    let holds_key = crate::seams::untraced(|| std::fs::read_dir("/var/lib/azure-proxy-agent/keys").map(|rd| rd.flatten().any(|e| e.file_name().to_string_lossy().ends_with(".key"))).unwrap_or(false));
    if first_key_create {
        run.stat("c12.key_files_created", 1);
    }
    if holds_key {
        use std::os::unix::fs::PermissionsExt;
        if let Ok(md) = std::fs::metadata("/var/lib/azure-proxy-agent/keys") {
            if md.permissions().mode() & 0o777 != 0o700 {
                viol.push(("key directory is not mode 0700".into(), format!("mode {:o}", md.permissions().mode() & 0o777)));
            }
        }
    }
    run.stat("c12.sinks_scanned", scanned);
    run.stat("c12.bytes_scanned", scanned_bytes);
    run.stat("c12.taints", taints.len() as i64);
    for (c, d) in viol {
        run.violate("C12", &c, d);
    }
}

fn sink_kind(sink: &str) -> &'static str {
    if sink.contains("ProxyAgent.Connection") {
        "the connection log"
    } else if sink.contains("ProxyAgent.log") || sink.contains("ProxyAgent.") {
        "the agent log"
    } else if sink == "telemetry event file" {
        "a telemetry event file"
    } else if sink.contains("status.json") || sink.contains("status.tmp") {
        "the status file"
    } else if sink.contains("status.tag") || sink.contains("provisioned.tag") {
        "a provision tag file"
    } else if sink == "stdout" || sink == "stderr" {
        "console output"
    } else if sink.contains("/dev/console") {
        "the serial console"
    } else if sink.contains("AuthorizationRules") {
        "a rule dump"
    } else {
        "a file outside the key store"
    }
}
