//! Executable reference for the access-control semantics, written from the property statements (C02,
//! C03, C11), not from the implementation. Input is the rule document *as served* (JSON).

use crate::hosts::{query_pairs, split_target};
use serde_json::Value;

#[derive(Clone, Debug, Default)]
pub struct Caller {
    pub user: String,
    pub groups: Vec<String>,
    pub process_name: String,
    pub exe_path: String,
    pub elevated: bool,
}

#[derive(Clone, Copy, Debug, PartialEq, Eq)]
pub enum Decision {
    Allow,
    Deny,
    /// the statement does not determine the answer for this input (see DESIGN.md §6)
    Either,
}

#[derive(Clone, Copy, Debug, PartialEq, Eq)]
pub enum Mode {
    Disabled,
    Audit,
    Enforce,
}

pub fn item_mode(item: &Value) -> Mode {
    match item["mode"].as_str().unwrap_or("").to_lowercase().as_str() {
        "audit" => Mode::Audit,
        "enforce" => Mode::Enforce,
        _ => Mode::Disabled, // includes "disabled" and anything unparsable
    }
}

fn lower(s: &str) -> String {
    s.to_lowercase()
}

/// does the privilege match the URL? Some(true/false) or None when undetermined
fn privilege_matches(p: &Value, target: &str) -> Option<bool> {
    let (path, query) = split_target(target);
    let ppath = p["path"].as_str().unwrap_or("");
    if !lower(&path).starts_with(&lower(ppath)) {
        return Some(false);
    }
    let pairs = query_pairs(&query);
    if let Some(qp) = p["queryParameters"].as_object() {
        for (k, v) in qp {
            let want = lower(v.as_str().unwrap_or(""));
            let vals: Vec<String> = pairs.iter().filter(|(n, _)| lower(n) == lower(k)).map(|(_, val)| lower(val)).collect();
            if vals.is_empty() {
                return Some(false);
            }
            let any = vals.iter().any(|x| *x == want);
            let all = vals.iter().all(|x| *x == want);
            if any != all {
                return None; // a rule-named parameter repeated with different values: undefined
            }
            if !any {
                return Some(false);
            }
        }
    }
    Some(true)
}

fn identity_matches(i: &Value, c: &Caller) -> bool {
    if let Some(u) = i["userName"].as_str() {
        if u != c.user {
            return false;
        }
    }
    if let Some(p) = i["processName"].as_str() {
        if p != c.process_name {
            return false;
        }
    }
    if let Some(e) = i["exePath"].as_str() {
        if e != c.exe_path {
            return false;
        }
    }
    if let Some(g) = i["groupName"].as_str() {
        if !c.groups.iter().any(|x| x == g) {
            return false;
        }
    }
    true
}

/// true when the document lists two privileges / identities / roles under one name
pub fn has_duplicate_names(item: &Value) -> bool {
    for sect in ["privileges", "identities", "roles"] {
        if let Some(a) = item["rules"][sect].as_array() {
            let mut names: Vec<&str> = a.iter().filter_map(|x| x["name"].as_str()).collect();
            let n = names.len();
            names.sort();
            names.dedup();
            if names.len() != n {
                return true;
            }
        }
    }
    false
}

/// The decision for (rule item, caller, url) per the declared semantics.
pub fn is_allowed(item: &Value, caller: &Caller, target: &str) -> Decision {
    if item_mode(item) == Mode::Disabled {
        return Decision::Allow;
    }
    let default_allow = lower(item["defaultAccess"].as_str().unwrap_or("")) == "allow";
    let rules = &item["rules"];
    let empty = Vec::new();
    let privileges = rules["privileges"].as_array().unwrap_or(&empty);
    let identities = rules["identities"].as_array().unwrap_or(&empty);
    let roles = rules["roles"].as_array().unwrap_or(&empty);
    let assignments = rules["roleAssignments"].as_array().unwrap_or(&empty);
    let mut any_matched = false;
    let mut undetermined = false;
    let mut allowed = false;
    for p in privileges {
        let pname = p["name"].as_str().unwrap_or("");
        match privilege_matches(p, target) {
            Some(false) => continue,
            None => {
                undetermined = true;
                continue;
            }
            Some(true) => {}
        }
        any_matched = true;
        // granted through a role assignment to a defined identity that matches the caller
        for a in assignments {
            let rname = a["role"].as_str().unwrap_or("");
            for r in roles.iter().filter(|r| r["name"].as_str() == Some(rname)) {
                let lists = r["privileges"].as_array().map(|v| v.iter().any(|x| x.as_str() == Some(pname))).unwrap_or(false);
                if !lists {
                    continue;
                }
                if let Some(ids) = a["identities"].as_array() {
                    for iname in ids.iter().filter_map(|x| x.as_str()) {
                        for i in identities.iter().filter(|i| i["name"].as_str() == Some(iname)) {
                            if identity_matches(i, caller) {
                                allowed = true;
                            }
                        }
                    }
                }
            }
        }
    }
    if allowed {
        return Decision::Allow;
    }
    if undetermined {
        return Decision::Either;
    }
    if any_matched {
        return Decision::Deny;
    }
    if default_allow {
        Decision::Allow
    } else {
        Decision::Deny
    }
}

#[derive(Clone, Copy, Debug, PartialEq, Eq)]
pub enum Outcome {
    /// relayed, nothing recorded
    Relay,
    /// relayed and recorded as a failed authorisation (audit mode)
    RelayAudit,
    /// refused with 403
    Forbid,
    Either,
}

/// Endpoint-level reference: what must happen to a request to `dst` by `caller` under status document `doc`.
/// `dst` is "ip:port" as recorded by the kernel.
pub fn endpoint_outcome(doc: &Value, dst: &str, caller: &Caller, target: &str) -> Outcome {
    let item = match dst {
        crate::hosts::WIRE => Some(&doc["authorizationRules"]["wireserver"]),
        crate::hosts::GA => Some(&doc["authorizationRules"]["hostga"]),
        crate::hosts::IMDS => Some(&doc["authorizationRules"]["imds"]),
        _ => None,
    };
    if dst == crate::hosts::PROXY {
        return Outcome::Forbid;
    }
    if (dst == crate::hosts::WIRE || dst == crate::hosts::GA) && !caller.elevated {
        return Outcome::Forbid;
    }
    let item = match item {
        Some(i) if i.is_object() => i,
        _ => return Outcome::Relay,
    };
    match is_allowed(item, caller, target) {
        Decision::Allow => Outcome::Relay,
        Decision::Either => Outcome::Either,
        Decision::Deny => match item_mode(item) {
            Mode::Audit => Outcome::RelayAudit,
            Mode::Enforce => Outcome::Forbid,
            Mode::Disabled => Outcome::Relay,
        },
    }
}

/// The document with every duplicate name collapsed to its last occurrence. Used only to *classify* a
/// disagreement: if the implementation agrees with the reference on this document, the disagreement on the
/// original is explained by "of two entries with one name only the last is kept".
pub fn collapse_last(item: &Value) -> Value {
    let mut it = item.clone();
    for sect in ["privileges", "identities", "roles"] {
        if let Some(a) = it["rules"][sect].as_array() {
            let mut out: Vec<Value> = Vec::new();
            for (i, e) in a.iter().enumerate() {
                let name = e["name"].as_str().unwrap_or("");
                let later = a.iter().skip(i + 1).any(|x| x["name"].as_str().unwrap_or("") == name);
                if !later {
                    out.push(e.clone());
                }
            }
            it["rules"][sect] = Value::Array(out);
        }
    }
    it
}
