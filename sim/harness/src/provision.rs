//! C16: provisioning status under any arrival order. Real start-up (three subsystems spawned concurrently)
//! under perturbed schedules, with start-up faults on each subsystem, host behaviours that latch / disable /
//! never answer, concurrent status queries with arbitrary time ticks, notify-triggered resets, wall-clock
//! jumps. The oracle uses only seam events (no peeking into the provisioning actor).

use crate::gen::{doc_v1, doc_v2, gen_knobs, gen_procs, grant_all_item, users_json};
use crate::world::Run;
use serde_json::{json, Value};
use vrt::Rng;

pub fn gen_c16(seed: u64, tier: &str) -> Value {
    let mut r = Rng::derive(seed, "work");
    let procs = gen_procs(&mut r, 2, true);
    let mut arm = serde_json::Map::new();
    // a quarter of the runs start cleanly: nothing fails, so the three subsystems report ready within the same few
    // scheduler turns of each other (their reports overlap; which one lands first is the schedule's choice)
    let clean_start = r.chance(1, 4);
    // redirector: 0..5 failures before success, or failing for good (>= 5 attempts)
    match if clean_start { 0 } else { r.below(6) } {
        0 => {}
        1 => {
            arm.insert("aya.load_file".into(), json!(1 + r.below(4)));
        }
        2 => {
            arm.insert("aya.attach.connect4".into(), json!(1 + r.below(4)));
        }
        3 => {
            arm.insert("aya.attach.tcp_v4_connect".into(), json!(1 + r.below(3)));
            arm.insert("aya.prog_load.connect4".into(), json!(r.below(2)));
        }
        4 => {
            arm.insert("aya.load_file".into(), json!(5 + r.below(3))); // never starts
        }
        _ => {
            arm.insert("aya.map_insert.policy_map".into(), json!(1 + r.below(3)));
        }
    }
    // listener: AddrInUse 0..6 times (6 = fails for good), or another bind error
    match if clean_start { 0 } else { r.below(6) } {
        0 | 1 => {}
        2 | 3 => {
            arm.insert("bind_in_use.127.0.0.1:3080".into(), json!(1 + r.below(5)));
        }
        4 => {
            arm.insert("bind_in_use.127.0.0.1:3080".into(), json!(6));
        }
        _ => {
            arm.insert("bind_denied.127.0.0.1:3080".into(), json!(1));
        }
    }
    // host behaviour
    let host_mode = if clean_start { r.below(4) } else { r.below(6) };
    let initial_doc = match host_mode {
        0 => doc_v1("disabled"),
        1 => doc_v1(*r.pick(&["wireserver", "wireserverandimds"])),
        2 => doc_v2(true, Some(json!({"imds": grant_all_item("imds-0", "audit", "allow", None)}))),
        3 => doc_v2(false, Some(json!({}))),
        _ => doc_v1("wireserver"),
    };
    let mut steps: Vec<Value> = Vec::new();
    if host_mode == 4 {
        // erroring for a while, then fine
        for _ in 0..1 + r.below(8) {
            let kind = *r.pick(&["status", "status", "acquire", "attest"]);
            let f = match r.below(4) {
                0 => json!({"f": "status", "status": 503}),
                1 => json!({"f": "reset_before"}),
                2 => json!({"f": "malformed", "body": "{", "ctype": "application/json"}),
                _ => json!({"f": "stall", "ms": 1000 + r.below(30000)}),
            };
            steps.push(json!({"t": "host_fault", "kind": kind, "fault": f}));
        }
    }
    if host_mode == 5 {
        // never answering: every status request fails for longer than the provisioning deadline
        for _ in 0..200 {
            steps.push(json!({"t": "host_fault", "kind": "status", "fault": {"f": "status", "status": 503}}));
        }
    }
    // queries, spread over the start-up window and beyond the 120 s deadline
    let nq = 2 + r.below(if tier == "thorough" { 10 } else { 6 });
    let mut conns = Vec::new();
    // resets (queries that carry the notify header while the channel is unknown or disabled) placed around the instants
    // at which a subsystem that had to retry reports ready (retries are one second apart)
    let reset_burst = r.chance(1, 3);
    let nq = if reset_burst { nq + 3 + r.below(6) } else { nq };
    for k in 0..nq {
        if reset_burst && k >= nq - 6 {
            let at_ms = (1000 * r.below(6) + r.below(60)).saturating_sub(20);
            conns.push(json!({"at_ms": at_ms, "tick": {"rel_ns": -1}, "notify": true, "metadata": true, "id": k}));
            continue;
        }
        let at_ms = match r.below(6) {
            0 => r.below(50),
            1 => r.below(2000),
            2 => 5000 + r.below(20000),
            3 => 110_000 + r.below(20_000),
            4 => 119_900 + r.below(400),
            _ => r.below(150_000),
        };
        // tick relative to the wall clock at send time (the client computes it when it sends)
        let tick = match r.below(7) {
            0 => json!({"rel_ns": 0}),
            1 => json!({"rel_ns": -(r.below(60_000_000_000) as i64)}),
            2 => json!({"rel_ns": r.below(10_000_000_000) as i64}),
            3 => json!({"rel_ns": r.below(3_000_000) as i64 - 1_500_000}),
            4 => json!({"absent": true}),
            5 => json!({"raw": *r.pick(&["abc", "", "1e9", "-5", "0x10", "99999999999999999999999999999999999999999999"])}),
            _ => json!({"rel_ns": -1}),
        };
        conns.push(json!({"at_ms": at_ms, "tick": tick, "notify": r.chance(1, 3), "metadata": !r.chance(1, 12), "id": k}));
    }
    steps.push(json!({"t": "provision_queries", "queries": conns, "jumps": if r.chance(1, 3) { json!([{"at_ms": r.below(140_000), "ms": (r.below(7_200_000) as i64) - 3_600_000}]) } else { json!([]) }}));
    // final quiescent query naming an instant long before the agent started (tick 1)
    steps.push(json!({"t": "sleep", "ms": 5000}));
    steps.push(json!({"t": "provision_queries", "queries": [{"at_ms": 0, "tick": {"raw": "1"}, "notify": false, "metadata": true, "id": 1000}], "jumps": [], "final": true}));
    let mut knobs = gen_knobs(&mut r, true);
    knobs["net.connect_lat_max_ms"] = json!(*r.pick(&[0u64, 1, 3]));
    if clean_start {
        // two of the tasks that report readiness (or serve the reports) are the slow ones of this run: whatever they do
        // in several steps is stretched over the others' reports
        knobs["sched.profile"] = json!(1);
        knobs["sched.victim_a"] = json!(r.below(14));
        knobs["sched.victim_b"] = json!(r.below(14));
        knobs["sched.victim_ms"] = json!(1 + r.below(6));
    }
    json!({
        "scenario": "provision:C16", "seed": seed, "family": "provision", "prop": "C16",
        "knobs": knobs, "procs": procs, "users": users_json(), "steps": steps, "oracles": ["C16"],
        "initial_doc": initial_doc, "arm": Value::Object(arm), "host_mode": host_mode,
        "config": {"pollKeyStatusIntervalInSeconds": 1 + r.below(15)}, "settle_ms": 500, "faulty": true,
    })
}

#[derive(Clone, Debug)]
pub struct QueryResult {
    pub id: u64,
    pub t_sent_ns: u64,
    pub t_resp_ns: u64,
    pub tick: Option<i128>, // the tick the proxy will parse (None = absent/unparsable -> 0)
    pub status: u16,
    pub finished: Option<bool>,
    pub error_message: String,
    pub max_wall_at_resp_ns: i128,
    pub notify: bool,
    pub metadata: bool,
}

pub async fn custom_step(run: &mut Run, idx: usize, kind: &str, s: &Value) -> bool {
    if kind != "provision_queries" {
        return false;
    }
    let t0 = tokio::time::Instant::now();
    let mut handles = Vec::new();
    for q in s["queries"].as_array().cloned().unwrap_or_default() {
        let plan = run.plan.clone();
        let step_idx = idx;
        handles.push(tokio::spawn(async move {
            let at = q["at_ms"].as_u64().unwrap_or(0);
            tokio::time::sleep_until(t0 + std::time::Duration::from_millis(at)).await;
            let mut hs = vec![json!(["Host", "127.0.0.1:3080"])];
            if q["metadata"].as_bool().unwrap_or(true) {
                hs.push(json!(["Metadata", "true"]));
            }
            let tick: Option<i128> = if q["tick"]["absent"] == true {
                None
            } else if let Some(raw) = q["tick"]["raw"].as_str() {
                hs.push(json!(["x-ms-azure-time_tick", raw]));
                raw.parse::<i128>().ok()
            } else {
                let t = vrt::time::wall_now_ns() + q["tick"]["rel_ns"].as_i64().unwrap_or(0) as i128;
                hs.push(json!(["x-ms-azure-time_tick", t.to_string()]));
                Some(t)
            };
            if q["notify"].as_bool().unwrap_or(false) {
                hs.push(json!(["x-ms-azure-notify", "true"]));
            }
            let conns = json!([{"proc": 0, "dst": "direct", "start_ms": 0, "reqs": [{"method": "GET", "target": "/provision", "headers": hs, "tok": format!("pq{}", q["id"])}]}]);
            let mut out = Vec::new();
            for p in crate::world::conn_plans(&plan, 800 + step_idx, &conns) {
                let r = crate::clients::run_conn(p).await;
                let res = r.results.first().cloned();
                let max_wall = vrt::time::max_wall_seen_ns().max(vrt::time::wall_now_ns());
                let (status, finished, msg, t_sent, t_resp) = match res.as_ref().and_then(|x| x.resp.as_ref().map(|m| (x, m))) {
                    Some((x, m)) => {
                        let v: Value = serde_json::from_slice(&m.body).unwrap_or(Value::Null);
                        (m.status(), v["finished"].as_bool(), v["errorMessage"].as_str().unwrap_or("").to_string(), x.t_sent_ns, x.t_resp_ns)
                    }
                    None => (0, None, r.connect_err.clone().unwrap_or_default(), vrt::time::now_ns(), vrt::time::now_ns()),
                };
                out.push(QueryResult { id: q["id"].as_u64().unwrap_or(0), t_sent_ns: t_sent, t_resp_ns: t_resp, tick, status, finished, error_message: msg, max_wall_at_resp_ns: max_wall, notify: q["notify"].as_bool().unwrap_or(false), metadata: q["metadata"].as_bool().unwrap_or(true) });
            }
            out
        }));
    }
    // wall clock jumps while queries are in flight
    let mut jumps: Vec<Value> = s["jumps"].as_array().cloned().unwrap_or_default();
    jumps.sort_by_key(|j| j["at_ms"].as_u64().unwrap_or(0));
    for j in jumps {
        tokio::time::sleep_until(t0 + std::time::Duration::from_millis(j["at_ms"].as_u64().unwrap_or(0))).await;
        vrt::time::jump_wall(j["ms"].as_i64().unwrap_or(0) * 1_000_000);
    }
    for h in handles {
        if let Ok(rs) = h.await {
            for q in rs {
                let o = json!({"id": q.id, "t_sent_ns": q.t_sent_ns, "t_resp_ns": q.t_resp_ns, "tick": q.tick.map(|t| t.to_string()), "status": q.status, "finished": q.finished,
                    "errorMessage": q.error_message, "max_wall_ns": q.max_wall_at_resp_ns.to_string(), "notify": q.notify, "metadata": q.metadata, "final": s["final"].as_bool().unwrap_or(false)});
                run.observations.push(("provision_query".into(), q.t_resp_ns, o));
            }
        }
    }
    true
}

pub fn check_c16(run: &mut Run) {
    // --- seam events
    let events = vrt::with(|w| w.events.clone());
    let mut t_l: Option<u64> = None; // listener bound
    let mut t_r: Option<u64> = None; // last attach of a successful redirector start (cgroup attach is the last step)
    let mut redirector_gen_attached: Option<u64> = None;
    let mut resets_possible_after: Option<u64> = None;
    for e in events.iter() {
        if e.kind == "net" && e.text == "bind 127.0.0.1:3080 -> ok" && t_l.is_none() {
            t_l = Some(e.t_ns);
        }
        if e.kind == "kern" && e.text.starts_with("attach connect4 ok") {
            t_r = Some(e.t_ns);
            redirector_gen_attached = Some(e.seq);
        }
        if e.kind == "kern" && e.text.starts_with("object dropped") {
            // a later object drop means that start attempt did not survive; only a start that is followed by no
            // drop counts - handled below by looking at the final state
        }
    }
    let hooks_alive = vrt::kernel::with(|k| k.loaded && k.cgroup_attached && k.kprobe_attached);
    if !hooks_alive {
        t_r = None;
    }
    let _ = redirector_gen_attached;
    // key event: the earliest instant at which the key keeper could have reported: a disabled document
    // delivered, or an attestation answered 200, or (latched status + local key) - approximated from below by
    // the first *successfully answered* status request (nothing can be reported before that)
    let (t_k_lower, latched_possible_from, statuses) = {
        let g = run.hosts.lock().unwrap();
        let mut first_status_ok: Option<u64> = None;
        let mut first_enabled: Option<u64> = None;
        let mut list = Vec::new();
        for r in g.log.iter() {
            if r.kind == "status" && r.answered_status == 200 {
                let t = (r.msg.t_last_ns + r.answer_delay_ms * 1_000_000);
                list.push(t);
                if first_status_ok.is_none() {
                    first_status_ok = Some(t);
                }
            }
            if r.kind == "attest" && r.answered_status == 200 && first_enabled.is_none() {
                first_enabled = Some((r.msg.t_last_ns + r.answer_delay_ms * 1_000_000));
            }
        }
        // restart-with-key path: a latched status and a local key need no attest; the plan never pre-seeds key
        // files in this scenario, so attest is the only way to an enabled (latched) state
        (first_status_ok, first_enabled, list)
    };
    let _ = statuses;
    let start_ns: u64 = 0; // the agent is started at virtual time 0 in this scenario
    let deadline_ns = start_ns + 120_000_000_000;
    let mut viol: Vec<(String, String)> = Vec::new();
    let mut n = 0i64;
    let mut n_finished = 0i64;
    let mut final_q: Option<Value> = None;
    for (label, _t, o) in run.observations.iter() {
        if label != "provision_query" {
            continue;
        }
        if o["final"] == true {
            final_q = Some(o.clone());
        }
        let status = o["status"].as_u64().unwrap_or(0);
        if status == 0 {
            continue; // listener not reachable
        }
        if o["metadata"] == false {
            if status != 400 {
                viol.push(("query without the Metadata header not refused".into(), format!("status {}", status)));
            }
            continue;
        }
        if status != 200 {
            viol.push(("provisioning query not answered 200".into(), format!("status {} id {}", status, o["id"])));
            continue;
        }
        n += 1;
        let t_resp = o["t_resp_ns"].as_u64().unwrap_or(0);
        let finished = o["finished"].as_bool().unwrap_or(false);
        let msg = o["errorMessage"].as_str().unwrap_or("");
        let tick: i128 = o["tick"].as_str().and_then(|s| s.parse().ok()).unwrap_or(0);
        let max_wall: i128 = o["max_wall_ns"].as_str().and_then(|s| s.parse().ok()).unwrap_or(0);
        let happened = |t: Option<u64>| t.map(|x| x <= t_resp).unwrap_or(false);
        if finished {
            n_finished += 1;
            let latched = latched_possible_from.map(|t| t <= t_resp).unwrap_or(false);
            let all_ready = happened(t_l) && happened(t_r) && happened(t_k_lower);
            let deadline = t_resp >= deadline_ns;
            if !latched {
                if !(all_ready || deadline) {
                    viol.push((
                        "reported finished before all three subsystems were ready and before the deadline".into(),
                        format!("id {} t={}ms listener@{:?} redirector@{:?} key>={:?} (ms)", o["id"], t_resp / 1_000_000, t_l.map(|x| x / 1_000_000), t_r.map(|x| x / 1_000_000), t_k_lower.map(|x| x / 1_000_000)),
                    ));
                }
                if tick > max_wall {
                    viol.push(("reported finished for an instant that has not been reached".into(), format!("id {} tick {} > largest wall-clock reading so far {}", o["id"], tick, max_wall)));
                }
            }
        }
        // error text: a subsystem whose event has not happened yet must be named
        for (name, t) in [("proxyListenerStatus", t_l), ("ebpfProgramStatus", if hooks_alive { t_r } else { None })] {
            if !happened(t) && !msg.contains(name) {
                // the redirector event of a start attempt that later failed is unknown here: only judge when it never attached
                if name == "ebpfProgramStatus" && events.iter().any(|e| e.kind == "kern" && e.text.starts_with("attach connect4 ok") && e.t_ns <= t_resp) {
                    continue;
                }
                viol.push(("error text omits a subsystem that is not ready".into(), format!("id {} t={}ms {} not named in {:?}", o["id"], t_resp / 1_000_000, name, msg)));
            }
        }
        if !happened(t_k_lower) && !msg.contains("keyLatchStatus") {
            viol.push(("error text omits a subsystem that is not ready".into(), format!("id {} t={}ms keyLatchStatus not named in {:?} (no status poll answered yet)", o["id"], t_resp / 1_000_000, msg)));
        }
    }
    // liveness / quiescent exactness: once all three events have happened, no reset follows and the system is
    // quiescent, a query with a past tick gets finished = true and an empty error text
    if let Some(f) = final_q {
        if f["status"] == 200 {
            let t_resp = f["t_resp_ns"].as_u64().unwrap_or(0);
            let any_notify = run.observations.iter().any(|(l, _, o)| l == "provision_query" && o["notify"] == true);
            let key_done = {
                // a key event certainly happened: an attest was answered 200, or a disabled document was served
                let g = run.hosts.lock().unwrap();
                let disabled_doc = !crate::oracle::doc_enabled(&g.status_doc);
                let ok_status = g.log.iter().any(|r| r.kind == "status" && r.answered_status == 200 && (r.msg.t_last_ns + r.answer_delay_ms * 1_000_000) + 2_000_000_000 < t_resp);
                (disabled_doc && ok_status) || g.log.iter().any(|r| r.kind == "attest" && r.answered_status == 200 && (r.msg.t_last_ns + r.answer_delay_ms * 1_000_000) + 2_000_000_000 < t_resp)
            };
            let all = t_l.map(|x| x + 2_000_000_000 < t_resp).unwrap_or(false) && t_r.map(|x| x + 2_000_000_000 < t_resp).unwrap_or(false) && key_done;
            if all && !any_notify {
                if f["finished"] != true {
                    viol.push(("not reported finished although all three subsystems reported ready".into(), format!("final query at t={}ms: {:?}", t_resp / 1_000_000, f["errorMessage"])));
                }
                if !f["errorMessage"].as_str().unwrap_or("").is_empty() {
                    viol.push(("error text names a subsystem that is ready".into(), format!("final query at t={}ms: {:?}", t_resp / 1_000_000, f["errorMessage"])));
                }
                run.stat("c16.final_all_ready", 1);
            } else if t_resp >= deadline_ns + 20_000_000_000 && f["finished"] != true && !any_notify {
                viol.push(("not reported finished after the provisioning deadline".into(), format!("final query at t={}ms: finished={} {:?}", t_resp / 1_000_000, f["finished"], f["errorMessage"])));
            }
        }
    }
    // disk: status.tag only ever appears by rename of a completely written and closed status.tag.tmp
    let mut tmp_state = 0; // 0 none, 1 open, 2 written, 3 closed
    for e in events.iter().filter(|e| e.kind == "disk") {
        let t = &e.text;
        if t.contains("/status.tag.tmp") {
            if t.starts_with("open ") && t.contains("+creat") {
                tmp_state = 1;
            } else if t.starts_with("write ") && tmp_state >= 1 {
                tmp_state = 2;
            } else if t.starts_with("close ") && tmp_state >= 1 {
                tmp_state = 3;
            } else if t.starts_with("rename ") && t.contains("-> ") && t.contains("/status.tag =") {
                if tmp_state != 3 {
                    viol.push(("status tag replaced by a temp file that was not completely written and closed".into(), format!("seq {} {}", e.seq, t)));
                }
                tmp_state = 0;
                run.stat("c16.status_tag_renames", 1);
            }
        } else if t.contains("/status.tag ") && t.starts_with("open ") && (t.contains(" w") || t.contains(" rw")) {
            viol.push(("status tag opened for writing in place".into(), format!("seq {} {}", e.seq, t)));
        }
    }
    let _ = resets_possible_after;
    run.stat("c16.queries_answered", n);
    run.stat("c16.finished_true", n_finished);
    if t_l.is_some() { run.stat("c16.listener_started", 1); }
    if t_r.is_some() { run.stat("c16.redirector_started", 1); }
    for (c, d) in viol {
        run.violate("C16", &c, d);
    }
}
