//! Simulated local client processes speaking raw HTTP/1.1 bytes.

use crate::hosts;
use crate::http::{self, Body, Msg, RErr, Reader};
use serde_json::Value;
use std::time::Duration;
use tokio::io::AsyncWriteExt;
use vrt::kernel::TaskIds;

#[derive(Clone, Debug)]
pub struct ReqPlan {
    pub method: String,
    pub target: String,
    pub headers: Vec<(String, Vec<u8>)>,
    pub body: Vec<u8>,
    pub has_body: bool,
    pub chunks: Option<Vec<usize>>,
    pub tok: String,
    /// the headers declare a body (Content-Length given by the plan) that is never sent: only the head goes out
    pub declared_only: bool,
    /// a slow client: pause (simulated ms) after the head, and once more in the middle of the body
    pub after_head_ms: u64,
    pub mid_body_ms: u64,
}

#[derive(Clone, Debug)]
pub struct ConnPlan {
    pub idx: usize,
    pub proc: usize,
    pub dst_name: String,
    pub task: TaskIds,
    pub dst: String, // ip:port
    pub start_ms: u64,
    pub pipeline: bool,
    pub reqs: Vec<ReqPlan>,
    pub gap_ms: u64,
    /// "normal" | "reset_after_send" | "reset_after_send:<ms>:<yields>" | "fin_after_send:<ms>:<yields>" - the client goes away
    /// (abortive reset, or orderly close without reading) <ms> simulated milliseconds plus <yields> scheduler turns
    /// after its request bytes were written, i.e. at an arbitrary point of the proxy's handling of that request
    pub close: String,
    pub protocol: u32,
    /// attribution record written by the harness right after connect, before the agent can look it up:
    /// (original destination "ip:port") — stands for a kernel record naming that destination
    pub inject: Option<String>,
}

#[derive(Clone, Debug, Default)]
pub struct ReqResult {
    pub tok: String,
    pub sent: bool,
    pub resp: Option<Msg>,
    pub err: Option<String>,
    pub t_sent_ns: u64,
    pub t_resp_ns: u64,
    pub wall_sent_ns: i128,
    pub wall_resp_ns: i128,
}

#[derive(Clone, Debug, Default)]
pub struct ConnResult {
    pub idx: usize,
    pub conn_id: u64,
    pub src_port: u16,
    pub connected: bool,
    pub connect_err: Option<String>,
    pub redirected: bool,
    pub results: Vec<ReqResult>,
    pub t_connect_ns: u64,
    pub t_close_ns: u64,
}

/// Latin-1 style mapping: each char <= 0xFF of the JSON string is one byte
pub fn str_to_bytes(s: &str) -> Vec<u8> {
    s.chars().map(|c| (c as u32).min(255) as u8).collect()
}
pub fn str_to_bytes_os(s: &str) -> std::ffi::OsString {
    use std::os::unix::ffi::OsStringExt;
    std::ffi::OsString::from_vec(str_to_bytes(s))
}
pub fn bytes_to_str(b: &[u8]) -> String {
    b.iter().map(|x| *x as char).collect()
}

pub fn gen_body(seed: u64, len: usize, ascii: bool) -> Vec<u8> {
    let mut v = vec![0u8; len];
    let mut r = vrt::Rng::new(seed ^ 0xB0D1);
    r.fill(&mut v);
    if ascii {
        for b in v.iter_mut() {
            *b = b'a' + (*b % 26);
        }
    }
    v
}

pub fn dst_addr(name: &str) -> String {
    match name {
        "wire" => hosts::WIRE.to_string(),
        "ga" => hosts::GA.to_string(),
        "imds" => hosts::IMDS.to_string(),
        "other" => hosts::OTHER.to_string(),
        "direct" | "self" | "other_redirected" => hosts::PROXY.to_string(),
        x => x.to_string(),
    }
}

pub fn serialise(r: &ReqPlan) -> Vec<u8> {
    let mut hs = r.headers.clone();
    hs.push(("x-vtok".to_string(), r.tok.as_bytes().to_vec()));
    let body = if !r.has_body {
        Body::None
    } else if let Some(c) = &r.chunks {
        Body::Chunked(&r.body, c)
    } else {
        Body::Len(&r.body)
    };
    http::build_request(&r.method, &r.target, &hs, body)
}

pub async fn run_conn(p: ConnPlan) -> ConnResult {
    let mut out = ConnResult { idx: p.idx, ..Default::default() };
    if p.start_ms > 0 {
        tokio::time::sleep(Duration::from_millis(p.start_ms)).await;
    }
    let stream = match vrt::net::connect_as(p.task, p.protocol, &p.dst, false).await {
        Ok(s) => s,
        Err(e) => {
            out.connect_err = Some(e.to_string());
            return out;
        }
    };
    out.connected = true;
    out.conn_id = stream.id();
    out.t_connect_ns = vrt::time::now_ns();
    if let Some(ci) = vrt::net::conn_info(out.conn_id) {
        out.src_port = ci.src.port();
        out.redirected = ci.redirected;
    }
    if let Some(dst) = &p.inject {
        inject_audit(p.protocol, out.src_port, p.task.uid, p.task.tgid, dst);
    }
    let mut rd = Reader::new(stream);
    if p.pipeline {
        let mut all = Vec::new();
        for r in &p.reqs {
            all.extend_from_slice(&serialise(r));
        }
        let t = vrt::time::now_ns();
        let wall_t = vrt::time::wall_now_ns();
        let sent = rd.s.write_all(&all).await;
        for r in &p.reqs {
            out.results.push(ReqResult { tok: r.tok.clone(), sent: sent.is_ok(), t_sent_ns: t, wall_sent_ns: wall_t, err: sent.as_ref().err().map(|e| e.to_string()), ..Default::default() });
        }
        if sent.is_ok() {
            if p.close != "normal" {
                go_away(&mut rd, &p.close).await;
            } else {
                for (i, r) in p.reqs.iter().enumerate() {
                    match read_resp(&mut rd, r.method == "HEAD").await {
                        Ok(m) => {
                            out.results[i].t_resp_ns = m.t_last_ns;
                            out.results[i].wall_resp_ns = vrt::time::wall_now_ns();
                            out.results[i].resp = Some(m);
                        }
                        Err(e) => {
                            out.results[i].err = Some(e);
                            break;
                        }
                    }
                }
            }
        }
    } else {
        for r in &p.reqs {
            let bytes = serialise(r);
            let mut rr = ReqResult { tok: r.tok.clone(), t_sent_ns: vrt::time::now_ns(), wall_sent_ns: vrt::time::wall_now_ns(), ..Default::default() };
            // a slow client delivers head, first half of the body and the rest with pauses in between
            let head_end = bytes.windows(4).position(|w| w == b"\r\n\r\n").map(|i| i + 4).unwrap_or(bytes.len());
            let mut cuts: Vec<(usize, u64)> = Vec::new();
            if r.after_head_ms > 0 && head_end < bytes.len() {
                cuts.push((head_end, r.after_head_ms));
            }
            if r.mid_body_ms > 0 && bytes.len() > head_end + 1 {
                cuts.push((head_end + (bytes.len() - head_end) / 2, r.mid_body_ms));
            }
            let mut sent_ok: Result<(), std::io::Error> = Ok(());
            let mut from = 0usize;
            for (at, ms) in cuts {
                if sent_ok.is_ok() {
                    sent_ok = rd.s.write_all(&bytes[from..at]).await;
                    from = at;
                    tokio::time::sleep(Duration::from_millis(ms)).await;
                }
            }
            if sent_ok.is_ok() {
                sent_ok = rd.s.write_all(&bytes[from..]).await;
            }
            match sent_ok {
                Ok(()) => rr.sent = true,
                Err(e) => {
                    rr.err = Some(e.to_string());
                    out.results.push(rr);
                    break;
                }
            }
            if p.close != "normal" {
                go_away(&mut rd, &p.close).await;
                out.results.push(rr);
                break;
            }
            match read_resp(&mut rd, r.method == "HEAD").await {
                Ok(m) => {
                    rr.t_resp_ns = m.t_last_ns;
                    rr.wall_resp_ns = vrt::time::wall_now_ns();
                    let closing = m.head.get("connection").map(|v| v.to_ascii_lowercase().contains("close")).unwrap_or(false) || m.until_close;
                    rr.resp = Some(m);
                    out.results.push(rr);
                    if closing {
                        break;
                    }
                }
                Err(e) => {
                    rr.err = Some(e);
                    out.results.push(rr);
                    break;
                }
            }
            if p.gap_ms > 0 {
                tokio::time::sleep(Duration::from_millis(p.gap_ms)).await;
            }
        }
    }
    if p.reqs.is_empty() && p.close != "normal" {
        // connect and go away without a request (probe, cancelled call, killed process): reset or orderly close
        go_away(&mut rd, &p.close).await;
    }
    out.t_close_ns = vrt::time::now_ns();
    out
}

async fn read_resp(rd: &mut Reader<vrt::net::TcpStream>, head: bool) -> Result<Msg, String> {
    // a response must arrive within a generous virtual deadline; a stuck proxy is a finding, not a hang
    match tokio::time::timeout(Duration::from_secs(600), rd.read_response(head)).await {
        Ok(Ok(m)) => Ok(m),
        Ok(Err(RErr::Eof)) => Err("eof".into()),
        Ok(Err(e)) => Err(format!("{:?}", e)),
        Err(_) => Err("timeout".into()),
    }
}

// ---- plan (JSON) <-> structs -------------------------------------------------------------------
async fn go_away(rd: &mut Reader<vrt::net::TcpStream>, how: &str) {
    let mut it = how.split(':');
    let kind = it.next().unwrap_or("");
    let ms: u64 = it.next().and_then(|x| x.parse().ok()).unwrap_or(0);
    let yields: u64 = it.next().and_then(|x| x.parse().ok()).unwrap_or(0);
    if ms > 0 {
        tokio::time::sleep(Duration::from_millis(ms)).await;
    }
    for _ in 0..yields {
        tokio::task::yield_now().await;
    }
    if kind.starts_with("fin") {
        let _ = rd.s.shutdown().await;
    } else {
        rd.s.reset();
    }
}

pub fn req_from_json(v: &Value) -> ReqPlan {
    let headers = v["headers"].as_array().map(|a| a.iter().map(|h| (h[0].as_str().unwrap_or("").to_string(), str_to_bytes(h[1].as_str().unwrap_or("")))).collect()).unwrap_or_default();
    let has_body = !v["body"].is_null();
    let body = if has_body { gen_body(v["body"]["seed"].as_u64().unwrap_or(0), v["body"]["len"].as_u64().unwrap_or(0) as usize, v["body"]["ascii"].as_bool().unwrap_or(false)) } else { Vec::new() };
    ReqPlan {
        method: v["method"].as_str().unwrap_or("GET").to_string(),
        target: v["target"].as_str().unwrap_or("/").to_string(),
        headers,
        body,
        has_body,
        chunks: v["chunks"].as_array().map(|a| a.iter().map(|x| x.as_u64().unwrap_or(1) as usize).collect()),
        tok: v["tok"].as_str().unwrap_or("").to_string(),
        declared_only: v["declared_only"].as_bool().unwrap_or(false),
        after_head_ms: v["slow"]["after_head_ms"].as_u64().unwrap_or(0),
        mid_body_ms: v["slow"]["mid_body_ms"].as_u64().unwrap_or(0),
    }
}

/// write an attribution record exactly as the kernel program lays it out (socket.h)
pub fn inject_audit(protocol: u32, src_port: u16, uid: u32, pid: u32, dst: &str) {
    let a: std::net::SocketAddrV4 = dst.parse().expect("inject dst");
    let mut key = Vec::new();
    key.extend_from_slice(&protocol.to_ne_bytes());
    key.extend_from_slice(&(src_port as u32).to_ne_bytes());
    let mut val = Vec::new();
    val.extend_from_slice(&uid.to_ne_bytes());
    val.extend_from_slice(&pid.to_ne_bytes());
    val.extend_from_slice(&(if uid == 0 { 1u32 } else { 0u32 }).to_ne_bytes());
    val.extend_from_slice(&vrt::kernel::ip_to_be32(*a.ip()).to_ne_bytes());
    val.extend_from_slice(&(a.port().to_be() as u32).to_ne_bytes());
    let r = vrt::kernel::map_update(vrt::kernel::MAP_AUDIT, &key, &val);
    vrt::log("kern", format!("inject audit port={} uid={} pid={} dst={} -> {}", src_port, uid, pid, dst, r));
}
