//! C08: crash consistency of the key latch. Phase 1 runs a key-negotiation scenario and snapshots
//! (key directory tree, host state) at every file-system call on the key directory and every network
//! segment on the key keeper's connections. Phase 2 restarts the agent from *every* snapshot in a fresh
//! process (disk := snapshot, host := snapshot, no faults) and checks recovery.

use crate::gen::{doc_v1, gen_knobs, gen_procs, users_json};
use crate::hosts;
use crate::world::Run;
use serde_json::{json, Value};
use std::sync::atomic::{AtomicU64, Ordering};
use std::sync::Mutex;
use vrt::Rng;

pub const KEY_DIR: &str = "/var/lib/azure-proxy-agent/keys";
const SNAP_ROOT: &str = "/verif/.build/nsroot/scratch/snaps";

static SNAP_ON: Mutex<bool> = Mutex::new(false);
static SNAP_COUNT: AtomicU64 = AtomicU64::new(0);
static LAST_HOST: Mutex<String> = Mutex::new(String::new());
static SNAP_LABELS: Mutex<Vec<String>> = Mutex::new(Vec::new());

pub fn host_json(g: &hosts::HostState) -> String {
    json!({
        "doc": g.status_doc, "latched": g.latched, "issued": g.issued, "key_counter": g.key_counter,
        "acquire_calls": g.acquire_calls, "attest_ok": g.attest_ok, "status_calls": g.status_calls,
    })
    .to_string()
}
/// called by the host model after every request it handled (and by script steps that change host state)
pub fn note_host_state(g: &hosts::HostState) {
    if let Ok(mut l) = LAST_HOST.try_lock() {
        *l = host_json(g);
    }
}

fn copy_tree(src: &str, dst: &str) {
    let _ = std::fs::create_dir_all(dst);
    if let Ok(rd) = std::fs::read_dir(src) {
        for e in rd.flatten() {
            let p = e.path();
            if p.is_file() {
                let _ = std::fs::copy(&p, format!("{}/{}", dst, e.file_name().to_string_lossy()));
            }
        }
    }
}

fn take_snapshot(label: &str) {
    if !*SNAP_ON.lock().unwrap_or_else(|e| e.into_inner()) {
        return;
    }
    let k = SNAP_COUNT.fetch_add(1, Ordering::SeqCst);
    if k >= 2000 {
        return;
    }
    crate::seams::untraced(|| {
        let dir = format!("{}/{}", SNAP_ROOT, k);
        let _ = std::fs::create_dir_all(&dir);
        copy_tree(KEY_DIR, &format!("{}/keys", dir));
        let host = LAST_HOST.lock().map(|l| l.clone()).unwrap_or_default();
        let _ = std::fs::write(format!("{}/host.json", dir), host);
        let _ = std::fs::write(format!("{}/label.txt", dir), label);
    });
    if let Ok(mut l) = SNAP_LABELS.lock() {
        l.push(label.to_string());
    }
}

fn event_hook(kind: &'static str, text: &str) {
    // network segments on the key keeper's connections: connections the agent opens to the WireServer
    if kind == "net" && (text.starts_with("write conn=") || text.starts_with("connect conn=") && text.contains("pid=4242") && text.contains("-> 168.63.129.16:80")) {
        take_snapshot(&format!("net {}", text));
    }
}

pub fn arm_snapshots() {
    crate::seams::untraced(|| {
        let _ = std::fs::remove_dir_all(SNAP_ROOT);
        let _ = std::fs::create_dir_all(SNAP_ROOT);
    });
    *SNAP_ON.lock().unwrap() = true;
    *crate::seams::DISK_HOOK.lock().unwrap() = Some(Box::new(|op, path| {
        if path.starts_with(KEY_DIR) {
            take_snapshot(&format!("disk {} {}", op, path));
        }
    }));
    *vrt::EVENT_HOOK.lock().unwrap() = Some(event_hook);
    take_snapshot("initial");
}
pub fn disarm_snapshots() {
    *SNAP_ON.lock().unwrap() = false;
}
pub fn snapshot_count() -> u64 {
    SNAP_COUNT.load(Ordering::SeqCst)
}

// ------------------------------------------------------------------------------------------------
pub fn gen_c08(seed: u64, _tier: &str) -> Value {
    let mut r = Rng::derive(seed, "host");
    let procs = gen_procs(&mut r, 2, true);
    let scenario = *r.pick(&["fresh", "fresh", "restart_with_key", "restart_with_key", "rotation", "unreadable"]);
    let mut steps: Vec<Value> = Vec::new();
    steps.push(json!({"t": "c08_prepare", "scenario": scenario, "corruption": *r.pick(&["truncate", "bitflip", "wrong_guid", "eacces", "empty"])}));
    // host failures at each protocol step
    for _ in 0..r.below(4) {
        let kind = *r.pick(&["status", "acquire", "attest", "attest"]);
        let f = match r.below(5) {
            0 => json!({"f": "status", "status": *r.pick(&[500u64, 503])}),
            1 => json!({"f": "malformed", "body": "{\"x\":", "ctype": "application/json"}),
            2 => json!({"f": "reset_before"}),
            3 => json!({"f": "reset_after"}),
            _ => json!({"f": "cut", "n": 1 + r.below(100)}),
        };
        steps.push(json!({"t": "host_fault", "kind": kind, "fault": f}));
    }
    steps.push(json!({"t": "start_agent"}));
    steps.push(json!({"t": "wait_latched", "max_s": 100}));
    // the first signed request
    steps.push(json!({"t": "clients", "conns": [{"proc": 0, "dst": "wire", "start_ms": 0, "reqs": [{"method": "GET", "target": "/machine?comp=goalstate", "headers": [["Host", "168.63.129.16"], ["x-ms-version", "2012-11-30"]], "tok": "first"}]}]}));
    let mut knobs = gen_knobs(&mut r, false);
    knobs["net.frag_ppm"] = json!(*r.pick(&[0u64, 300_000, 900_000]));
    let mut disk_faults = Vec::new();
    if matches!(scenario, "restart_with_key" | "rotation") && r.chance(1, 2) {
        // a transient error while the intact local key file is looked up after the restart (I/O error, no descriptors left)
        disk_faults.push(json!({"op": "open", "path": ".key", "nth": 1, "errno": *r.pick(&[5i64, 24, 23, 12]), "short": 0}));
    } else if r.chance(1, 4) {
        // a disk error while storing the key
        disk_faults.push(json!({"op": *r.pick(&["write", "rename", "open"]), "path": "/var/lib/azure-proxy-agent/keys/", "nth": 1 + r.below(6), "errno": *r.pick(&[28i64, 5, 13]), "short": 0}));
    } else if false {
        // a transient error while the intact local key file is looked up after the restart (I/O error, no descriptors left)
        disk_faults.push(json!({"op": "open", "path": ".key", "nth": 1 + r.below(2), "errno": *r.pick(&[5i64, 24, 23, 12]), "short": 0}));
    }
    json!({
        "scenario": "crash:C08", "seed": seed, "family": "crash", "prop": "C08", "c08_scenario": scenario,
        "knobs": knobs, "procs": procs, "users": users_json(), "steps": steps, "oracles": ["C08", "C04"],
        "initial_doc": doc_v1("wireserver"), "autostart": false, "disk_faults": disk_faults,
        "config": {"pollKeyStatusIntervalInSeconds": 1 + r.below(3)}, "settle_ms": 200, "faulty": true,
    })
}

fn key_file_body(guid: &str, key: &str) -> Vec<u8> {
    serde_json::to_vec_pretty(&json!({"authorizationScheme": "Azure-HMAC-SHA256", "guid": guid, "issued": "2027-01-15T08:00:00Z", "key": key})).unwrap()
}

pub async fn custom_step(run: &mut Run, idx: usize, kind: &str, s: &Value) -> bool {
    match kind {
        "c08_prepare" => {
            // arrange the pre-crash world: what is latched at the host and what is on disk
            let scen = s["scenario"].as_str().unwrap_or("fresh");
            let mut corrupted: Vec<String> = Vec::new();
            {
                let mut g = run.hosts.lock().unwrap();
                crate::seams::untraced(|| {
                    let _ = std::fs::create_dir_all(KEY_DIR);
                });
                match scen {
                    "restart_with_key" => {
                        let k = g.new_key();
                        crate::seams::untraced(|| std::fs::write(format!("{}/{}.key", KEY_DIR, k.0), key_file_body(&k.0, &k.1)).ok());
                        g.set_latched(Some(k));
                    }
                    "rotation" => {
                        let k1 = g.new_key();
                        crate::seams::untraced(|| std::fs::write(format!("{}/{}.key", KEY_DIR, k1.0), key_file_body(&k1.0, &k1.1)).ok());
                        let k2 = g.new_key();
                        // the host names g2, only g1 is on disk: this mismatch is the scenario's precondition,
                        // not something the agent did, so g2 is exempt from the "attested => on disk" invariant
                        corrupted.push(k2.0.clone());
                        g.set_latched(Some(k2));
                    }
                    "unreadable" => {
                        let k = g.new_key();
                        let body = key_file_body(&k.0, &k.1);
                        let path = format!("{}/{}.key", KEY_DIR, k.0);
                        let data: Vec<u8> = match s["corruption"].as_str().unwrap_or("truncate") {
                            "truncate" => body[..body.len() / 2].to_vec(),
                            "bitflip" => {
                                let mut b = body.clone();
                                let i = b.len() / 3;
                                b[i] ^= 0x20;
                                b
                            }
                            "wrong_guid" => key_file_body("00000000-0000-0000-0000-000000000001", &k.1),
                            "empty" => Vec::new(),
                            _ => body.clone(),
                        };
                        crate::seams::untraced(|| std::fs::write(&path, data).ok());
                        if s["corruption"] == "eacces" {
                            crate::seams::add_fault(crate::seams::DiskFault { op: "open".into(), path_contains: format!("{}.key", k.0), nth: 0, errno: 13, short_write: 0, seen: 0, fired: 0 });
                        }
                        corrupted.push(k.0.clone());
                        g.set_latched(Some(k));
                    }
                    _ => {}
                }
                note_host_state(&g);
            }
            run.observations.push(("c08_corrupted".into(), 0, json!(corrupted)));
            arm_snapshots();
            true
        }
        "wait_latched" => {
            // until the host regards a key as latched that the agent also holds, or the time is up
            let deadline = tokio::time::Instant::now() + std::time::Duration::from_secs(s["max_s"].as_u64().unwrap_or(100));
            loop {
                let hl = run.hosts.lock().unwrap().latched.as_ref().map(|x| x.0.clone());
                let ak = match &run.agent {
                    Some(a) => a.get_key_keeper_shared_state().get_current_key_guid().await.ok().flatten(),
                    None => None,
                };
                if hl.is_some() && hl == ak {
                    break;
                }
                if tokio::time::Instant::now() >= deadline {
                    run.notes.push(format!("step {}: wait_latched timed out (host {:?}, agent {:?})", idx, hl, ak));
                    break;
                }
                tokio::time::sleep(std::time::Duration::from_millis(50)).await;
            }
            true
        }
        "c08_restore" => {
            // phase 2: disk := snapshot, host := snapshot
            let dir = std::env::var("VERIF_SNAPSHOT").unwrap_or_default();
            let host: Value = crate::seams::untraced(|| std::fs::read(format!("{}/host.json", dir)).ok().and_then(|d| serde_json::from_slice(&d).ok())).unwrap_or(Value::Null);
            crate::seams::untraced(|| {
                let _ = std::fs::create_dir_all(KEY_DIR);
                copy_tree(&format!("{}/keys", dir), KEY_DIR);
            });
            let mut g = run.hosts.lock().unwrap();
            g.status_doc = host["doc"].clone();
            if let Some(a) = host["latched"].as_array() {
                g.latched = Some((a[0].as_str().unwrap_or("").to_string(), a[1].as_str().unwrap_or("").to_string()));
            }
            if let Some(o) = host["issued"].as_object() {
                for (k, v) in o {
                    g.issued.insert(k.clone(), v.as_str().unwrap_or("").to_string());
                }
            }
            g.key_counter = host["key_counter"].as_u64().unwrap_or(0) + 1000; // fresh guids after restart
            g.acquire_calls = 0;
            run.observations.push(("c08_host_at_crash".into(), 0, host));
            true
        }
        _ => false,
    }
}

/// Is `<guid>.key` in `dir` a complete key document for (guid, key)?
fn key_file_intact(dir: &str, guid: &str, key: &str) -> Result<(), String> {
    let p = format!("{}/{}.key", dir, guid);
    let d = crate::seams::untraced(|| std::fs::read(&p)).map_err(|e| format!("{} unreadable: {}", p, e))?;
    let v: Value = serde_json::from_slice(&d).map_err(|e| format!("{} does not parse: {} ({} bytes)", p, e, d.len()))?;
    if v["guid"].as_str() != Some(guid) {
        return Err(format!("{} names guid {:?}", p, v["guid"]));
    }
    if v["key"].as_str() != Some(key) {
        return Err(format!("{} holds another key value", p));
    }
    if !v["authorizationScheme"].is_string() || !v["issued"].is_string() {
        return Err(format!("{} is not a complete key document", p));
    }
    Ok(())
}

/// Phase 1 oracle (O2, O3) + the invariant over every snapshot: a key the host regards as attested is
/// present, complete and readable in the key store at that instant.
pub fn check_phase1(run: &mut Run) {
    disarm_snapshots();
    let corrupted: Vec<String> = run.observations.iter().find(|(l, _, _)| l == "c08_corrupted").map(|(_, _, v)| v.as_array().map(|a| a.iter().filter_map(|x| x.as_str().map(|s| s.to_string())).collect()).unwrap_or_default()).unwrap_or_default();
    let n = snapshot_count();
    let labels = SNAP_LABELS.lock().unwrap().clone();
    let mut viol: Vec<(String, String)> = Vec::new();
    for k in 0..n.min(2000) {
        let dir = format!("{}/{}", SNAP_ROOT, k);
        let host: Value = crate::seams::untraced(|| std::fs::read(format!("{}/host.json", dir)).ok().and_then(|d| serde_json::from_slice(&d).ok())).unwrap_or(Value::Null);
        let label = labels.get(k as usize).cloned().unwrap_or_default();
        // O2: no truncated or corrupt file under a key's final name
        if let Ok(rd) = crate::seams::untraced(|| std::fs::read_dir(format!("{}/keys", dir))) {
            for e in rd.flatten() {
                let name = e.file_name().to_string_lossy().to_string();
                if let Some(stem) = name.strip_suffix(".key") {
                    if corrupted.iter().any(|c| c == stem) {
                        continue; // corrupted by the scenario itself before the agent started
                    }
                    let data = crate::seams::untraced(|| std::fs::read(e.path())).unwrap_or_default();
                    let ok = serde_json::from_slice::<Value>(&data).ok().map(|v| v["guid"].as_str() == Some(stem) && v["key"].is_string()).unwrap_or(false);
                    if !ok {
                        viol.push(("truncated or corrupt file under a key's final name".into(), format!("crash point {} ({}): {} ({} bytes)", k, label, name, data.len())));
                    }
                }
            }
        }
        // a key the host regards as attested is recoverable
        if let Some(a) = host["latched"].as_array() {
            let (g, key) = (a[0].as_str().unwrap_or(""), a[1].as_str().unwrap_or(""));
            if !corrupted.iter().any(|c| c == g) {
                if let Err(e) = key_file_intact(&format!("{}/keys", dir), g, key) {
                    viol.push(("host regards a key as attested that the key store cannot produce".into(), format!("crash point {} ({}): {}", k, label, e)));
                }
            }
        }
    }
    // O3: every attestation request the host saw for g was preceded by create -> write -> rename of g.key and a
    // successful open of g.key for reading (the read-back), in the event log
    let events = vrt::with(|w| w.events.clone());
    {
        let g = run.hosts.lock().unwrap();
        for rv in g.log.iter().filter(|r| r.kind == "attest") {
            let (path, _) = hosts::split_target(rv.msg.target());
            let guid = path.split('/').nth(3).unwrap_or("").to_string();
            // position of the attest request's first segment in the event log: the host event that logged it
            let attest_seq = events.iter().find(|e| e.kind == "host" && e.text.contains("attest") && e.t_ns >= rv.msg.t_first_ns).map(|e| e.seq).unwrap_or(u64::MAX);
            let mut renamed = false;
            let mut read_back = false;
            for e in events.iter().filter(|e| e.kind == "disk" && e.seq < attest_seq) {
                if e.text.starts_with("rename ") && e.text.contains(&format!("{}.tmp", guid)) && e.text.contains(&format!("-> {}/{}.key = ok", KEY_DIR, guid)) {
                    renamed = true;
                    read_back = false;
                }
                if renamed && e.text.starts_with(&format!("open {}/{}.key r ", KEY_DIR, guid)) && e.text.ends_with("-> ok") {
                    read_back = true;
                }
            }
            if !(renamed && read_back) {
                viol.push(("key attested before it was stored under its final name and read back".into(), format!("attestation of {}: stored={} read_back={}", guid, renamed, read_back)));
            }
            // the value attested equals what the host issued (the MAC verified under it) - checked by the host
        }
    }
    run.stat("c08.crash_points", n as i64);
    for (c, d) in viol {
        run.violate("C08", &c, d);
    }
}

/// Phase 2 scenario: restart from one snapshot.
pub fn gen_restart(seed: u64) -> Value {
    let mut r = Rng::derive(seed, "restart");
    let procs = gen_procs(&mut r, 2, true);
    json!({
        "scenario": "crash:C08-restart", "seed": seed, "family": "crash_restart", "prop": "C08",
        "knobs": {"net.frag_ppm": 100000, "net.lat_max_ms": 1}, "procs": procs, "users": users_json(), "oracles": ["C08", "C04"],
        "autostart": false, "config": {"pollKeyStatusIntervalInSeconds": 1}, "settle_ms": 200, "faulty": false,
        "steps": [
            {"t": "c08_restore"},
            {"t": "start_agent"},
            {"t": "wait_latched", "max_s": 60},
            {"t": "observe", "label": "after_restart", "clean": true},
            {"t": "clients", "conns": [{"proc": 0, "dst": "wire", "start_ms": 0, "reqs": [{"method": "GET", "target": "/machine?comp=goalstate", "headers": [["Host", "168.63.129.16"], ["x-ms-version", "2012-11-30"]], "tok": "after"}]}]}
        ],
    })
}

pub fn check_restart(run: &mut Run) {
    let host_at_crash = run.observations.iter().find(|(l, _, _)| l == "c08_host_at_crash").map(|(_, _, v)| v.clone()).unwrap_or(Value::Null);
    let obs = run.observations.iter().find(|(l, _, _)| l == "after_restart").map(|(_, _, v)| v.clone()).unwrap_or(Value::Null);
    let dir = std::env::var("VERIF_SNAPSHOT").unwrap_or_default();
    let corrupted: Vec<String> = std::env::var("VERIF_C08_CORRUPTED").unwrap_or_default().split(',').filter(|s| !s.is_empty()).map(|s| s.to_string()).collect();
    let mut viol: Vec<(String, String)> = Vec::new();
    let g = run.hosts.lock().unwrap();
    let agent_key = obs["key_guid"].as_str().map(|s| s.to_string());
    let host_latched_now = g.latched.as_ref().map(|x| x.0.clone());
    // O4: bounded liveness after restart with a healthy host
    if agent_key.is_none() || agent_key != host_latched_now {
        viol.push(("after restart the agent does not reach a latched key within 60 simulated seconds".into(), format!("agent {:?}, host {:?}", agent_key, host_latched_now)));
    }
    // O1: an attested key that was intact on disk is found and used without requesting a new one
    if let Some(a) = host_at_crash["latched"].as_array() {
        let (gk, key) = (a[0].as_str().unwrap_or(""), a[1].as_str().unwrap_or(""));
        let intact = key_file_intact(&format!("{}/keys", dir), gk, key).is_ok();
        if intact && !corrupted.iter().any(|c| c == gk) {
            if agent_key.as_deref() != Some(gk) {
                viol.push(("attested key present on disk but not used after restart".into(), format!("host latched {}, agent holds {:?}", gk, agent_key)));
            }
            if g.acquire_calls != 0 {
                viol.push(("attested key present on disk but a new key was requested after restart".into(), format!("{} acquire request(s)", g.acquire_calls)));
            }
        }
    }
    // the signed request after restart verifies
    let after: Vec<&hosts::Recv> = g.log.iter().filter(|r| r.token.as_deref() == Some("after")).collect();
    match after.first() {
        Some(rv) => {
            if !matches!(rv.sig, hosts::SigCheck::Valid { .. }) {
                viol.push(("request after restart is not validly signed".into(), format!("{:?}", rv.sig)));
            }
        }
        None => {
            if agent_key.is_some() {
                viol.push(("request after restart was not relayed".into(), String::new()));
            }
        }
    }
    drop(g);
    for (c, d) in viol {
        run.violate("C08", &c, d);
    }
}
