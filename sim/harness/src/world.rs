//! The plan interpreter: builds the simulated world, starts the real agent through its entry point,
//! executes the plan's steps, and hands the recorded history to the oracles.

use crate::clients::{self, ConnPlan, ConnResult};
use crate::hosts::{self, HostFault, RespSpec};
use crate::seams;
use azure_proxy_agent::shared_state::SharedState;
use serde_json::{json, Value};
use std::time::Duration;
use vrt::kernel::TaskIds;

#[derive(Clone, Debug)]
pub struct Violation {
    pub property: String,
    pub class: String,
    pub detail: String,
    pub seq: u64,
}

#[derive(Clone, Debug)]
pub struct Phase {
    pub step_idx: usize,
    /// status document in force for requests of this phase (what the host has been serving, applied)
    pub doc: Value,
    /// every document served since the agent last provably applied one (non-empty = transition phase)
    pub prev_docs: Vec<Value>,
    pub t_start_ns: u64,
    pub t_end_ns: u64,
    pub latched_guid: Option<String>,
}

pub struct Run {
    pub seed: u64,
    pub plan: Value,
    pub hosts: hosts::Shared,
    pub agent: Option<SharedState>,
    pub conns: Vec<(usize, ConnPlan, ConnResult)>, // (phase index, plan, result)
    pub phases: Vec<Phase>,
    pub violations: Vec<Violation>,
    pub notes: Vec<String>,
    pub stats: std::collections::BTreeMap<String, i64>,
    pub samples: Vec<Value>,
    /// snapshots taken by "snapshot" steps: name -> value
    pub observations: Vec<(String, u64, Value)>,
}

impl Run {
    pub fn violate(&mut self, property: &str, class: &str, detail: String) {
        let seq = vrt::with(|w| w.seq);
        if self.violations.len() < 50 {
            self.violations.push(Violation { property: property.to_string(), class: class.to_string(), detail, seq });
        }
    }
    pub fn stat(&mut self, k: &str, n: i64) {
        *self.stats.entry(k.to_string()).or_insert(0) += n;
    }
}

pub fn write_config(overrides: &Value) {
    seams::untraced(|| write_config_inner(overrides))
}
fn write_config_inner(overrides: &Value) {
    let txt = std::fs::read_to_string("/repo/proxy_agent/config/GuestProxyAgent.linux.json").expect("shipped config");
    let mut v: Value = serde_json::from_str(&txt).expect("shipped config json");
    if let (Some(o), Some(dst)) = (overrides.as_object(), v.as_object_mut()) {
        for (k, val) in o {
            if val.is_null() {
                dst.remove(k);
            } else {
                dst.insert(k.clone(), val.clone());
            }
        }
    }
    std::fs::create_dir_all("/etc/azure").expect("mkdir /etc/azure");
    std::fs::write("/etc/azure/proxy-agent.json", serde_json::to_vec_pretty(&v).unwrap()).expect("write config");
}

fn task_of(plan: &Value, proc_idx: usize) -> TaskIds {
    let p = &plan["procs"][proc_idx];
    TaskIds { tgid: p["pid"].as_u64().unwrap_or(0) as u32, tid: p["tid"].as_u64().unwrap_or(p["pid"].as_u64().unwrap_or(0)) as u32, uid: p["uid"].as_u64().unwrap_or(0) as u32, gid: p["gid"].as_u64().unwrap_or(0) as u32 }
}

pub fn caller_of(plan: &Value, proc_idx: usize) -> crate::rbac::Caller {
    let p = &plan["procs"][proc_idx];
    let uid = p["uid"].as_u64().unwrap_or(0);
    let known = p["known"].as_bool().unwrap_or(true);
    let user = plan["users"].as_array().and_then(|us| us.iter().find(|u| u["uid"].as_u64() == Some(uid))).cloned();
    let exe = if known { p["exe"].as_str().unwrap_or("").to_string() } else { String::new() };
    crate::rbac::Caller {
        user: match &user {
            Some(u) => u["name"].as_str().unwrap_or("").to_string(),
            None => "undefined".to_string(),
        },
        groups: user.as_ref().and_then(|u| u["groups"].as_array().map(|g| g.iter().filter_map(|x| x.as_str().map(|s| s.to_string())).collect())).unwrap_or_default(),
        process_name: std::path::Path::new(&exe).file_name().map(|s| s.to_string_lossy().to_string()).unwrap_or_default(),
        exe_path: exe,
        elevated: uid == 0,
    }
}

fn install_procs(plan: &Value) {
    if let Some(us) = plan["users"].as_array() {
        for (i, u) in us.iter().enumerate() {
            let groups: Vec<(u32, std::ffi::OsString)> =
                u["groups"].as_array().map(|g| g.iter().enumerate().map(|(j, x)| (1000 + (i * 16 + j) as u32, x.as_str().unwrap_or("").into())).collect()).unwrap_or_default();
            vrt::procs::add_user(vrt::procs::UserRec { uid: u["uid"].as_u64().unwrap_or(0) as u32, name: u["name"].as_str().unwrap_or("").into(), primary_gid: u["gid"].as_u64().unwrap_or(0) as u32, groups });
        }
    }
    if let Some(ps) = plan["procs"].as_array() {
        for p in ps {
            if !p["known"].as_bool().unwrap_or(true) {
                continue; // pid unknown to the process table
            }
            vrt::procs::add_proc(vrt::procs::Proc {
                pid: p["pid"].as_u64().unwrap_or(0) as u32,
                tid: p["tid"].as_u64().unwrap_or(0) as u32,
                uid: p["uid"].as_u64().unwrap_or(0) as u32,
                gid: p["gid"].as_u64().unwrap_or(0) as u32,
                exe: p["exe"].as_str().map(|s| clients::str_to_bytes_os(s)),
                cmd: p["cmd"].as_array().map(|a| a.iter().map(|x| x.as_str().unwrap_or("").to_string()).collect()).unwrap_or_default(),
            });
        }
    }
}

fn resp_spec_from_json(v: &Value) -> RespSpec {
    RespSpec {
        status: v["status"].as_u64().unwrap_or(200) as u16,
        headers: v["headers"].as_array().map(|a| a.iter().map(|h| (h[0].as_str().unwrap_or("").to_string(), clients::str_to_bytes(h[1].as_str().unwrap_or("")))).collect()).unwrap_or_default(),
        body: if v["body"].is_null() { Vec::new() } else { clients::gen_body(v["body"]["seed"].as_u64().unwrap_or(0), v["body"]["len"].as_u64().unwrap_or(0) as usize, v["body"]["ascii"].as_bool().unwrap_or(false)) },
        chunked: v["chunks"].as_array().map(|a| a.iter().map(|x| x.as_u64().unwrap_or(1) as usize).collect()),
        close_delimited: v["close_delimited"].as_bool().unwrap_or(false),
        delay_ms: v["delay_ms"].as_u64().unwrap_or(0),
        cut_after: v["cut_after"].as_u64().map(|x| x as usize),
        close_after: v["close_after"].as_bool().unwrap_or(false),
    }
}

pub fn host_fault_from_json(v: &Value) -> Option<HostFault> {
    let k = v["f"].as_str()?;
    Some(match k {
        "status" => HostFault::Status(v["status"].as_u64().unwrap_or(503) as u16),
        "status_body" => HostFault::StatusWithBody(v["status"].as_u64().unwrap_or(500) as u16, clients::str_to_bytes(v["body"].as_str().unwrap_or("")), v["ctype"].as_str().unwrap_or("text/plain").to_string()),
        "malformed" => HostFault::MalformedBody(clients::str_to_bytes(v["body"].as_str().unwrap_or("")), v["ctype"].as_str().unwrap_or("application/json").to_string()),
        "reset_before" => HostFault::ResetBefore,
        "reset_after" => HostFault::ResetAfter,
        "stall" => HostFault::Stall(v["ms"].as_u64().unwrap_or(1000)),
        "cut" => HostFault::CutResponse(v["n"].as_u64().unwrap_or(10) as usize),
        "cut_body" => HostFault::CutBody(v["n"].as_u64().unwrap_or(0) as usize),
        "key_doc" => HostFault::KeyDoc(v["variant"].as_str().unwrap_or("missing_issued").to_string()),
        _ => return None,
    })
}

fn kind_static(k: &str) -> &'static str {
    match k {
        "status" => "status",
        "acquire" => "acquire",
        "attest" => "attest",
        "goalstate" => "goalstate",
        "sharedconfig" => "sharedconfig",
        "imds_instance" => "imds_instance",
        "telemetry" => "telemetry",
        "client" => "client",
        _ => "echo",
    }
}

pub fn conn_plans(plan: &Value, step_idx: usize, conns: &Value) -> Vec<ConnPlan> {
    let mut out = Vec::new();
    if let Some(a) = conns.as_array() {
        for (ci, c) in a.iter().enumerate() {
            let proc_idx = c["proc"].as_u64().unwrap_or(0) as usize;
            let reqs = c["reqs"].as_array().map(|r| r.iter().map(clients::req_from_json).collect()).unwrap_or_default();
            out.push(ConnPlan {
                idx: step_idx * 1000 + ci,
                proc: proc_idx,
                dst_name: c["dst"].as_str().unwrap_or("imds").to_string(),
                task: task_of(plan, proc_idx),
                dst: clients::dst_addr(c["dst"].as_str().unwrap_or("imds")),
                start_ms: c["start_ms"].as_u64().unwrap_or(0),
                pipeline: c["pipeline"].as_bool().unwrap_or(false),
                reqs,
                gap_ms: c["gap_ms"].as_u64().unwrap_or(0),
                close: c["close"].as_str().unwrap_or("normal").to_string(),
                protocol: c["protocol"].as_u64().unwrap_or(6) as u32,
                inject: match c["dst"].as_str().unwrap_or("") {
                    "self" => Some(hosts::PROXY.to_string()),
                    "other_redirected" => Some(hosts::OTHER.to_string()),
                    _ => c["inject"].as_str().map(|s| clients::dst_addr(s)),
                },
            });
        }
    }
    out
}

/// wait until the host has completely served `n` more status polls of the current document version
async fn wait_polls(run: &Run, n: u64, max_s: u64) -> bool {
    let (notify, base, ver) = {
        let g = run.hosts.lock().unwrap();
        (g.notify.clone(), g.served_versions.iter().filter(|(v, _)| *v == g.doc_version).count() as u64, g.doc_version)
    };
    let deadline = tokio::time::Instant::now() + Duration::from_secs(max_s);
    loop {
        let cnt = {
            let g = run.hosts.lock().unwrap();
            g.served_versions.iter().filter(|(v, _)| *v == ver).count() as u64
        };
        if cnt >= base + n {
            return true;
        }
        if tokio::time::timeout_at(deadline, notify.notified()).await.is_err() {
            return false;
        }
    }
}

pub async fn execute(seed: u64, plan: Value) -> Run {
    let st = hosts::new_state(seed);
    let mut run = Run {
        seed,
        plan: plan.clone(),
        hosts: st.clone(),
        agent: None,
        conns: Vec::new(),
        phases: Vec::new(),
        violations: Vec::new(),
        notes: Vec::new(),
        stats: Default::default(),
        samples: Vec::new(),
        observations: Vec::new(),
    };
    // knobs, armed fault sites
    if let Some(k) = plan["knobs"].as_object() {
        for (name, v) in k {
            vrt::set_knob(name, v.as_i64().unwrap_or(0));
        }
    }
    if let Some(a) = plan["arm"].as_object() {
        for (site, n) in a {
            vrt::arm(site, n.as_i64().unwrap_or(1));
        }
    }
    if let Some(p) = plan["ports"].as_array() {
        vrt::kernel::set_port_range(p[0].as_u64().unwrap_or(40000) as u16, p[1].as_u64().unwrap_or(20000) as u16);
    }
    if let Some(f) = plan["disk_faults"].as_array() {
        for d in f {
            seams::add_fault(seams::DiskFault {
                op: d["op"].as_str().unwrap_or("write").to_string(),
                path_contains: d["path"].as_str().unwrap_or("").to_string(),
                nth: d["nth"].as_u64().unwrap_or(1),
                errno: d["errno"].as_i64().unwrap_or(28) as i32,
                short_write: d["short"].as_u64().unwrap_or(0) as usize,
                seen: 0,
                fired: 0,
            });
        }
    }
    install_procs(&plan);
    {
        let mut g = st.lock().unwrap();
        if let Some(d) = plan.get("initial_doc") {
            if !d.is_null() {
                g.status_doc = d.clone();
            }
        }
        if let Some(b) = plan["key_hex_upper"].as_bool() {
            g.key_hex_upper = b;
        }
    }
    hosts::start_all(&st);
    write_config(&plan["config"]);

    let mut cur_doc: Value = st.lock().unwrap().status_doc.clone();
    let mut prev_docs: Vec<Value> = Vec::new();
    let autostart = plan["autostart"].as_bool().unwrap_or(true);
    if autostart {
        let shared = SharedState::start_all();
        azure_proxy_agent::service::start_service(shared.clone()).await;
        run.agent = Some(shared);
    }
    let steps = plan["steps"].as_array().cloned().unwrap_or_default();
    for (si, s) in steps.iter().enumerate() {
        match s["t"].as_str().unwrap_or("") {
            "doc" => {
                let mut g = st.lock().unwrap();
                prev_docs.push(cur_doc.clone());
                cur_doc = s["doc"].clone();
                g.set_doc(cur_doc.clone());
                match s["latch"].as_str().unwrap_or("keep") {
                    "none" => g.set_latched(None),
                    "new" => {
                        let k = g.new_key();
                        g.set_latched(Some(k));
                    }
                    _ => {}
                }
                vrt::log("script", format!("doc v{} set", g.doc_version));
            }
            "wait_polls" => {
                let ok = wait_polls(&run, s["n"].as_u64().unwrap_or(2), s["max_s"].as_u64().unwrap_or(120)).await;
                if ok {
                    prev_docs.clear(); // the agent has applied the document: stable phase
                } else {
                    run.notes.push(format!("step {}: wait_polls timed out", si));
                }
                run.stat("wait_polls", 1);
            }
            "clients" | "clients_with" => {
                let plans = conn_plans(&plan, si, &s["conns"]);
                // register response specs
                if let Some(a) = s["conns"].as_array() {
                    let mut g = st.lock().unwrap();
                    for c in a {
                        if let Some(rs) = c["reqs"].as_array() {
                            for r in rs {
                                if !r["resp"].is_null() {
                                    g.resp_specs.insert(r["tok"].as_str().unwrap_or("").to_string(), resp_spec_from_json(&r["resp"]));
                                }
                            }
                        }
                    }
                }
                let t0 = vrt::time::now_ns();
                let latched_guid = st.lock().unwrap().latched.as_ref().map(|x| x.0.clone());
                let mut handles = Vec::new();
                for p in plans {
                    let pc = p.clone();
                    handles.push((pc, tokio::spawn(clients::run_conn(p))));
                }
                let max_s = s["max_s"].as_u64().unwrap_or(1200);
                let deadline = tokio::time::Instant::now() + Duration::from_secs(max_s);
                let phase_idx = run.phases.len();
                // actions that happen while the clients are running (C10: rotation under load)
                let mut during: Vec<Value> = s["during"].as_array().cloned().unwrap_or_default();
                during.sort_by_key(|d| d["after_ms"].as_u64().unwrap_or(0));
                let mut elapsed = 0u64;
                for d in during {
                    let at = d["after_ms"].as_u64().unwrap_or(0);
                    if at > elapsed {
                        tokio::time::sleep(Duration::from_millis(at - elapsed)).await;
                        elapsed = at;
                    }
                    let a = &d["do"];
                    match a["t"].as_str().unwrap_or("") {
                        "doc" => {
                            let mut g = st.lock().unwrap();
                            prev_docs.push(cur_doc.clone());
                            cur_doc = a["doc"].clone();
                            g.set_doc(cur_doc.clone());
                            vrt::log("script", format!("doc v{} set (under load)", g.doc_version));
                        }
                        other => {
                            prev_docs.push(cur_doc.clone());
                            let _ = crate::scenarios::custom_step(&mut run, si, other, a).await;
                        }
                    }
                }
                for (pc, h) in handles {
                    match tokio::time::timeout_at(deadline, h).await {
                        Ok(Ok(r)) => run.conns.push((phase_idx, pc, r)),
                        Ok(Err(e)) => run.notes.push(format!("client task failed: {}", e)),
                        Err(_) => {
                            run.notes.push(format!("step {}: client conn {} did not finish within {} s", si, pc.idx, max_s));
                            run.conns.push((phase_idx, pc.clone(), ConnResult { idx: pc.idx, connected: true, connect_err: Some("client did not finish".into()), ..Default::default() }));
                        }
                    }
                }
                run.phases.push(Phase { step_idx: si, doc: cur_doc.clone(), prev_docs: prev_docs.clone(), t_start_ns: t0, t_end_ns: vrt::time::now_ns(), latched_guid });
            }
            "sleep" => tokio::time::sleep(Duration::from_millis(s["ms"].as_u64().unwrap_or(1000))).await,
            "clock_jump" => vrt::time::jump_wall(s["ms"].as_i64().unwrap_or(0) * 1_000_000),
            "rm_path" => {
                // environment fault: a directory (or file) is removed under the running agent
                let p = s["path"].as_str().unwrap_or("").to_string();
                if p.starts_with("/var/lib/azure-proxy-agent") || p.starts_with("/var/log/azure-proxy-agent") {
                    let ok = seams::untraced(|| std::fs::remove_dir_all(&p).or_else(|_| std::fs::remove_file(&p)).is_ok());
                    vrt::log("disk", format!("env-remove {} -> {}", p, if ok { "ok" } else { "absent" }));
                }
            }
            "clock_coarse" => vrt::time::set_coarse(s["ns"].as_u64().unwrap_or(0)),
            "arm" => vrt::arm(s["site"].as_str().unwrap_or(""), s["n"].as_i64().unwrap_or(1)),
            "knob" => vrt::set_knob(s["name"].as_str().unwrap_or(""), s["v"].as_i64().unwrap_or(0)),
            "host_fault" => {
                if let Some(f) = host_fault_from_json(&s["fault"]) {
                    st.lock().unwrap().push_fault(kind_static(s["kind"].as_str().unwrap_or("status")), f);
                }
            }
            "telemetry_script" => {
                let mut g = st.lock().unwrap();
                if let Some(a) = s["statuses"].as_array() {
                    for x in a {
                        g.telemetry_script.push_back(x.as_u64().unwrap_or(200) as u16);
                    }
                }
            }
            "net_fault" => {
                let k = &s["kind"];
                let kind = match k["f"].as_str().unwrap_or("") {
                    "refuse" => Some(vrt::net::FaultKind::Refuse),
                    "reset_after" => Some(vrt::net::FaultKind::ResetAfter { pipe: k["pipe"].as_u64().unwrap_or(0) as usize, bytes: k["bytes"].as_u64().unwrap_or(1) }),
                    "close_after" => Some(vrt::net::FaultKind::CloseAfter { pipe: k["pipe"].as_u64().unwrap_or(1) as usize, bytes: k["bytes"].as_u64().unwrap_or(1) }),
                    "stall" => Some(vrt::net::FaultKind::StallAt { pipe: k["pipe"].as_u64().unwrap_or(1) as usize, bytes: k["bytes"].as_u64().unwrap_or(1), ms: k["ms"].as_u64().unwrap_or(1000) }),
                    _ => None,
                };
                if let Some(kind) = kind {
                    vrt::net::arm_fault(vrt::net::ArmedFault { dst: s["dst"].as_str().map(|d| clients::dst_addr(d)), agent_initiated: s["agent"].as_bool(), kind });
                }
            }
            "clear_faults" => {
                // faults nobody ran into do not leak into the next phase
                if s["all"] == true {
                    st.lock().unwrap().faults.clear();
                } else {
                    st.lock().unwrap().faults.remove("client");
                }
                vrt::net::clear_faults();
            }
            "drain_faults" => {
                let notify = st.lock().unwrap().notify.clone();
                let deadline = tokio::time::Instant::now() + Duration::from_secs(s["max_s"].as_u64().unwrap_or(300));
                loop {
                    let pending: usize = st.lock().unwrap().faults.values().map(|q| q.len()).sum();
                    if pending == 0 {
                        break;
                    }
                    if tokio::time::timeout_at(deadline, notify.notified()).await.is_err() {
                        // faults the agent never ran into (e.g. an acquire fault when no key was needed): drop them
                        st.lock().unwrap().faults.clear();
                        break;
                    }
                }
            }
            "start_agent" => {
                if run.agent.is_none() {
                    let shared = SharedState::start_all();
                    azure_proxy_agent::service::start_service(shared.clone()).await;
                    run.agent = Some(shared);
                }
            }
            other => {
                if !crate::scenarios::custom_step(&mut run, si, other, s).await {
                    run.notes.push(format!("unknown step type {:?}", other));
                }
            }
        }
    }
    let settle = plan["settle_ms"].as_u64().unwrap_or(2000);
    tokio::time::sleep(Duration::from_millis(settle)).await;
    run
}

pub fn result_json(run: &Run, scenario: &str) -> Value {
    let (digest, sched, counters, nev, tail) = vrt::with(|w| {
        (
            w.digest,
            w.sched_digest,
            w.counters.clone(),
            w.seq,
            w.events.iter().rev().take(60).rev().map(|e| format!("{} t={}ms {} {}", e.seq, e.t_ns / 1_000_000, e.kind, e.text)).collect::<Vec<_>>(),
        )
    });
    let all_events: Vec<String> = if std::env::var("VERIF_DUMP_EVENTS").is_ok() { vrt::with(|w| w.events.iter().map(|e| format!("{} t={}ms {} {}", e.seq, e.t_ns / 1_000_000, e.kind, e.text)).collect()) } else { Vec::new() };
    let panics: Vec<Value> = crate::PANICS.lock().unwrap().iter().map(|(l, m)| json!({"at": l, "msg": m})).collect();
    let h = run.hosts.lock().unwrap();
    let relayed = h.log.iter().filter(|r| r.token.is_some()).count();
    let debug: Vec<String> = match std::env::var("VERIF_DEBUG_TOK") {
        Ok(t) => h.log.iter().filter(|r| r.token.as_deref() == Some(t.as_str())).map(|r| format!("HOST {} sig={:?} raw_head={:?} body_len={} chunked={} chunks={:?}", r.host, r.sig, String::from_utf8_lossy(&r.msg.head.raw), r.msg.body.len(), r.msg.chunked, r.msg.chunk_sizes)).collect(),
        Err(_) => Vec::new(),
    };
    let grep: Vec<String> = match std::env::var("VERIF_GREP_CAPTURE") {
        Ok(pat) => {
            let mut out = Vec::new();
            for (class, data) in seams::take_capture().iter() {
                for line in String::from_utf8_lossy(data).lines() {
                    if line.contains(pat.as_str()) {
                        out.push(format!("{}: {}", class, line.chars().take(600).collect::<String>()));
                    }
                }
            }
            out
        }
        Err(_) => Vec::new(),
    };
    json!({
        "grep": grep,
        "debug": debug,
        "scenario": scenario,
        "seed": run.seed,
        "verdict": if run.violations.is_empty() { "ok" } else { "violation" },
        "violations": run.violations.iter().map(|v| json!({"property": v.property, "class": v.class, "detail": v.detail, "seq": v.seq})).collect::<Vec<_>>(),
        "digest": format!("{:016x}", digest),
        "sched_digest": format!("{:016x}", sched),
        "events": nev,
        "sim_ms": vrt::time::now_ms(),
        "counters": counters,
        "stats": run.stats,
        "notes": run.notes,
        "panics": panics,
        "progress": {"client_requests": run.conns.iter().map(|c| c.2.results.len()).sum::<usize>(), "relayed": relayed, "status_polls_ok": h.status_ok, "host_requests": h.log.len(), "disk_ops": seams::disk_ops()},
        "plan": run.plan,
        "samples": run.samples,
        "tail": tail,
        "all_events": all_events,
        "tasks_spawned": vrt::sched::tasks_spawned(),
        "c08_corrupted": run.observations.iter().find(|(l, _, _)| l == "c08_corrupted").map(|(_, _, v)| v.clone()),
        "disk_ops": seams::disk_ops(),
    })
}
