//! libc seams, by symbol definition in the executable: Rust's std is linked statically into this
//! binary, so its references to `write`, `open64`, `rename`, `clock_gettime`, `getrandom`, `getpid`, ...
//! bind to the definitions below, which consult the simulator and forward to the real function
//! (`dlsym(RTLD_NEXT, ..)`). Only calls on paths under the watched roots are traced / fault-injected.

use libc::{c_char, c_int, c_uint, c_void, gid_t, mode_t, off64_t, size_t, ssize_t, uid_t};
use std::cell::Cell;
use std::collections::BTreeMap;
use std::ffi::CStr;
use std::sync::atomic::{AtomicBool, AtomicU64, Ordering};
use std::sync::Mutex;

thread_local! {
    static IN_SEAM: Cell<bool> = const { Cell::new(false) };
}
struct Guard(bool);
impl Guard {
    fn enter() -> Option<Guard> {
        match IN_SEAM.try_with(|c| {
            if c.get() {
                false
            } else {
                c.set(true);
                true
            }
        }) {
            Ok(true) => Some(Guard(true)),
            _ => None,
        }
    }
}
impl Drop for Guard {
    fn drop(&mut self) {
        if self.0 {
            let _ = IN_SEAM.try_with(|c| c.set(false));
        }
    }
}

macro_rules! real {
    ($name:literal, $ty:ty) => {{
        static PTR: std::sync::atomic::AtomicUsize = std::sync::atomic::AtomicUsize::new(0);
        let mut p = PTR.load(Ordering::Relaxed);
        if p == 0 {
            p = libc::dlsym(libc::RTLD_NEXT, concat!($name, "\0").as_ptr() as *const c_char) as usize;
            PTR.store(p, Ordering::Relaxed);
        }
        std::mem::transmute::<usize, $ty>(p)
    }};
}

// -------------------------------------------------------------------------------------------------
// state
pub static ENABLED: AtomicBool = AtomicBool::new(false);
static FAKE_PID: AtomicBool = AtomicBool::new(false);
static ENTROPY: Mutex<Option<vrt::Rng>> = Mutex::new(None);
pub static ENTROPY_CALLS: AtomicU64 = AtomicU64::new(0);

#[derive(Clone, Debug)]
pub struct DiskFault {
    pub op: String,          // open | write | rename | mkdir | unlink | chmod | chown
    pub path_contains: String,
    pub nth: u64,            // fire on the nth matching call (1-based); 0 = every call
    pub errno: i32,          // errno to return; 0 with short_write = short write instead
    pub short_write: usize,  // for op=write: write only this many bytes (then succeed)
    pub seen: u64,
    pub fired: u64,
}

#[derive(Default)]
pub struct DiskState {
    pub roots: Vec<String>,
    pub fds: BTreeMap<i32, String>,
    pub faults: Vec<DiskFault>,
    /// captured output: (class, bytes). class = path, or "stdout" / "stderr"
    pub capture: BTreeMap<String, Vec<u8>>,
    pub capture_on: bool,
    pub ops: u64,
}
pub static DISK: Mutex<Option<DiskState>> = Mutex::new(None);

/// called after every traced disk operation, outside all locks: (op, path)
pub static DISK_HOOK: Mutex<Option<Box<dyn Fn(&str, &str) + Send>>> = Mutex::new(None);

pub fn seed_entropy(seed: u64) {
    *ENTROPY.lock().unwrap() = Some(vrt::Rng::derive(seed, "hash"));
}
pub fn enable(roots: &[&str]) {
    let mut d = DiskState::default();
    d.roots = roots.iter().map(|s| s.to_string()).collect();
    d.capture_on = true;
    *DISK.lock().unwrap() = Some(d);
    FAKE_PID.store(true, Ordering::SeqCst);
    ENABLED.store(true, Ordering::SeqCst);
}
pub fn disable() {
    ENABLED.store(false, Ordering::SeqCst);
}
pub fn add_fault(f: DiskFault) {
    if let Some(d) = DISK.lock().unwrap().as_mut() {
        d.faults.push(f);
    }
}
pub fn take_capture() -> BTreeMap<String, Vec<u8>> {
    match DISK.lock().unwrap().as_mut() {
        Some(d) => d.capture.clone(),
        None => BTreeMap::new(),
    }
}
pub fn disk_ops() -> u64 {
    DISK.lock().unwrap().as_ref().map(|d| d.ops).unwrap_or(0)
}

fn watched(d: &DiskState, path: &str) -> bool {
    d.roots.iter().any(|r| path.starts_with(r.as_str()))
}

/// decide whether a fault fires for (op, path); returns (errno, short_write)
fn fault_for(op: &str, path: &str) -> Option<(i32, usize)> {
    let mut g = DISK.try_lock().ok()?;
    let d = g.as_mut()?;
    for f in d.faults.iter_mut() {
        if f.op == op && path.contains(f.path_contains.as_str()) {
            f.seen += 1;
            if f.nth == 0 || f.seen == f.nth {
                f.fired += 1;
                return Some((f.errno, f.short_write));
            }
        }
    }
    None
}

fn trace(op: &'static str, path: &str, detail: String, fault: bool) {
    let _ = vrt::try_with(|w| {
        if fault {
            w.count(&format!("fault.disk_{}", op));
        }
        w.count_n("disk.ops", 1);
        w.log("disk", format!("{} {} {}", op, path, detail));
    });
    if let Ok(mut g) = DISK.try_lock() {
        if let Some(d) = g.as_mut() {
            d.ops += 1;
        }
    }
    if let Ok(g) = DISK_HOOK.try_lock() {
        if let Some(h) = g.as_ref() {
            h(op, path);
        }
    }
}

unsafe fn cpath(p: *const c_char) -> String {
    if p.is_null() {
        return String::new();
    }
    CStr::from_ptr(p).to_string_lossy().to_string()
}
unsafe fn set_errno(e: i32) {
    *libc::__errno_location() = e;
}
thread_local! {
    static HARNESS_IO: Cell<bool> = const { Cell::new(false) };
}
/// run harness-side file I/O (script steps, oracles) without tracing it as the agent's
pub fn untraced<R>(f: impl FnOnce() -> R) -> R {
    let prev = HARNESS_IO.with(|c| c.replace(true));
    let r = f();
    HARNESS_IO.with(|c| c.set(prev));
    r
}
fn harness_io() -> bool {
    HARNESS_IO.try_with(|c| c.get()).unwrap_or(false)
}

fn is_watched(path: &str) -> bool {
    if !ENABLED.load(Ordering::Relaxed) || harness_io() {
        return false;
    }
    match DISK.try_lock() {
        Ok(g) => g.as_ref().map(|d| watched(d, path)).unwrap_or(false),
        Err(_) => false,
    }
}

// -------------------------------------------------------------------------------------------------
// clocks, entropy, identity
#[no_mangle]
pub unsafe extern "C" fn clock_gettime(id: libc::clockid_t, ts: *mut libc::timespec) -> c_int {
    let f = real!("clock_gettime", unsafe extern "C" fn(libc::clockid_t, *mut libc::timespec) -> c_int);
    if vrt::time::on() {
        if let Some(_g) = Guard::enter() {
            let realtime = matches!(id, libc::CLOCK_REALTIME | libc::CLOCK_REALTIME_COARSE | libc::CLOCK_TAI);
            let cpu = matches!(id, libc::CLOCK_PROCESS_CPUTIME_ID | libc::CLOCK_THREAD_CPUTIME_ID);
            if !cpu {
                if let Some((s, n)) = vrt::time::virt_clock(realtime) {
                    (*ts).tv_sec = s as libc::time_t;
                    (*ts).tv_nsec = n as libc::c_long;
                    return 0;
                }
            }
        }
    }
    f(id, ts)
}

#[no_mangle]
pub unsafe extern "C" fn getrandom(buf: *mut c_void, len: size_t, flags: c_uint) -> ssize_t {
    if let Ok(mut g) = ENTROPY.try_lock() {
        if let Some(r) = g.as_mut() {
            let s = std::slice::from_raw_parts_mut(buf as *mut u8, len);
            r.fill(s);
            ENTROPY_CALLS.fetch_add(1, Ordering::Relaxed);
            return len as ssize_t;
        }
    }
    let f = real!("getrandom", unsafe extern "C" fn(*mut c_void, size_t, c_uint) -> ssize_t);
    f(buf, len, flags)
}

#[no_mangle]
pub unsafe extern "C" fn getpid() -> libc::pid_t {
    if FAKE_PID.load(Ordering::Relaxed) {
        return vrt::procs::AGENT_PID as libc::pid_t;
    }
    let f = real!("getpid", unsafe extern "C" fn() -> libc::pid_t);
    f()
}

// -------------------------------------------------------------------------------------------------
// files
unsafe fn open_common(name: &'static str, path: *const c_char, flags: c_int, mode: mode_t, real_open: unsafe extern "C" fn(*const c_char, c_int, mode_t) -> c_int) -> c_int {
    let p = cpath(path);
    let g = if is_watched(&p) { Guard::enter() } else { None };
    if g.is_none() {
        return real_open(path, flags, mode);
    }
    let creating = flags & libc::O_CREAT != 0;
    if let Some((errno, _)) = fault_for("open", &p) {
        trace("open", &p, format!("flags={:#x} -> errno {} (injected)", flags, errno), true);
        set_errno(errno);
        return -1;
    }
    let fd = real_open(path, flags, mode);
    let e = *libc::__errno_location();
    if fd >= 0 {
        if let Ok(mut d) = DISK.try_lock() {
            if let Some(d) = d.as_mut() {
                d.fds.insert(fd, p.clone());
            }
        }
    }
    let acc = flags & libc::O_ACCMODE;
    let _ = name;
    // a file created in a key directory: record how restricted that directory is at this very instant
    let mut dir_state = String::new();
    if creating && fd >= 0 && p.contains("/keys/") {
        if let Some(parent) = std::path::Path::new(&p).parent() {
            if let Ok(c) = std::ffi::CString::new(parent.to_string_lossy().as_bytes()) {
                let mut st: libc::stat = std::mem::zeroed();
                if libc::stat(c.as_ptr(), &mut st) == 0 {
                    dir_state = format!(" dir={:o}/uid{}", st.st_mode & 0o7777, st.st_uid);
                }
            }
        }
    }
    trace(
        "open",
        &p,
        format!(
            "{}{}{}{} -> {}{}",
            if acc == libc::O_RDONLY { "r" } else if acc == libc::O_WRONLY { "w" } else { "rw" },
            if creating { "+creat" } else { "" },
            if flags & libc::O_TRUNC != 0 { "+trunc" } else { "" },
            if flags & libc::O_APPEND != 0 { "+append" } else { "" },
            if fd >= 0 { "ok".to_string() } else { format!("errno {}", e) },
            dir_state
        ),
        false,
    );
    set_errno(e);
    fd
}

#[no_mangle]
pub unsafe extern "C" fn open64(path: *const c_char, flags: c_int, mode: mode_t) -> c_int {
    let f = real!("open64", unsafe extern "C" fn(*const c_char, c_int, mode_t) -> c_int);
    open_common("open64", path, flags, mode, f)
}
#[no_mangle]
pub unsafe extern "C" fn open(path: *const c_char, flags: c_int, mode: mode_t) -> c_int {
    let f = real!("open", unsafe extern "C" fn(*const c_char, c_int, mode_t) -> c_int);
    open_common("open", path, flags, mode, f)
}

#[no_mangle]
pub unsafe extern "C" fn close(fd: c_int) -> c_int {
    let f = real!("close", unsafe extern "C" fn(c_int) -> c_int);
    if ENABLED.load(Ordering::Relaxed) {
        if let Some(_g) = Guard::enter() {
            let p = match DISK.try_lock() {
                Ok(mut d) => d.as_mut().and_then(|d| d.fds.remove(&fd)),
                Err(_) => None,
            };
            if let Some(p) = p {
                let r = f(fd);
                trace("close", &p, String::new(), false);
                return r;
            }
        }
    }
    f(fd)
}

#[no_mangle]
pub unsafe extern "C" fn write(fd: c_int, buf: *const c_void, count: size_t) -> ssize_t {
    let f = real!("write", unsafe extern "C" fn(c_int, *const c_void, size_t) -> ssize_t);
    if !ENABLED.load(Ordering::Relaxed) || harness_io() {
        return f(fd, buf, count);
    }
    let g = Guard::enter();
    if g.is_none() {
        return f(fd, buf, count);
    }
    // which class?
    let class: Option<String> = match DISK.try_lock() {
        Ok(d) => match d.as_ref() {
            Some(d) => {
                if fd == 1 {
                    Some("stdout".to_string())
                } else if fd == 2 {
                    Some("stderr".to_string())
                } else {
                    d.fds.get(&fd).cloned()
                }
            }
            None => None,
        },
        Err(_) => None,
    };
    let class = match class {
        Some(c) => c,
        None => return f(fd, buf, count),
    };
    let is_std = fd == 1 || fd == 2;
    let mut n = count;
    if !is_std {
        if let Some((errno, short)) = fault_for("write", &class) {
            if errno != 0 {
                trace("write", &class, format!("len={} -> errno {} (injected)", count, errno), true);
                set_errno(errno);
                return -1;
            }
            if short > 0 && short < count {
                n = short;
                let _ = vrt::try_with(|w| w.count("fault.disk_short_write"));
            }
        }
    }
    let data = std::slice::from_raw_parts(buf as *const u8, n);
    if let Ok(mut d) = DISK.try_lock() {
        if let Some(d) = d.as_mut() {
            if d.capture_on {
                d.capture.entry(class.clone()).or_default().extend_from_slice(data);
            }
        }
    }
    let r = if is_std {
        // swallow: the agent's console output is captured, not printed
        n as ssize_t
    } else {
        f(fd, buf, n)
    };
    if !is_std {
        let e = *libc::__errno_location();
        trace("write", &class, format!("len={} -> {}", n, r), false);
        set_errno(e);
    }
    r
}

#[no_mangle]
pub unsafe extern "C" fn rename(old: *const c_char, new: *const c_char) -> c_int {
    let f = real!("rename", unsafe extern "C" fn(*const c_char, *const c_char) -> c_int);
    let (a, b) = (cpath(old), cpath(new));
    let g = if is_watched(&a) || is_watched(&b) { Guard::enter() } else { None };
    if g.is_none() {
        return f(old, new);
    }
    if let Some((errno, _)) = fault_for("rename", &b) {
        trace("rename", &a, format!("-> {} errno {} (injected)", b, errno), true);
        set_errno(errno);
        return -1;
    }
    let r = f(old, new);
    let e = *libc::__errno_location();
    trace("rename", &a, format!("-> {} = {}", b, if r == 0 { "ok".to_string() } else { format!("errno {}", e) }), false);
    set_errno(e);
    r
}

macro_rules! path_op {
    ($fname:ident, $lit:literal, $op:literal, ($($arg:ident : $ty:ty),*)) => {
        #[no_mangle]
        pub unsafe extern "C" fn $fname(path: *const c_char $(, $arg: $ty)*) -> c_int {
            let f = real!($lit, unsafe extern "C" fn(*const c_char $(, $ty)*) -> c_int);
            let p = cpath(path);
            let g = if is_watched(&p) { Guard::enter() } else { None };
            if g.is_none() {
                return f(path $(, $arg)*);
            }
            if let Some((errno, _)) = fault_for($op, &p) {
                trace($op, &p, format!("-> errno {} (injected)", errno), true);
                set_errno(errno);
                return -1;
            }
            let r = f(path $(, $arg)*);
            let e = *libc::__errno_location();
            let parts: Vec<String> = vec![$(format!("{}={:#o}", stringify!($arg), $arg as u64)),*];
            let detail = format!("{} -> {}", parts.join(" "), if r == 0 { "ok".to_string() } else { format!("errno {}", e) });
            trace($op, &p, detail, false);
            set_errno(e);
            r
        }
    };
}
path_op!(unlink, "unlink", "unlink", ());
path_op!(rmdir, "rmdir", "rmdir", ());
path_op!(mkdir, "mkdir", "mkdir", (mode: mode_t));
path_op!(chmod, "chmod", "chmod", (mode: mode_t));
path_op!(chown, "chown", "chown", (uid: uid_t, gid: gid_t));

#[no_mangle]
pub unsafe extern "C" fn ftruncate64(fd: c_int, len: off64_t) -> c_int {
    let f = real!("ftruncate64", unsafe extern "C" fn(c_int, off64_t) -> c_int);
    let r = f(fd, len);
    if ENABLED.load(Ordering::Relaxed) {
        if let Some(_g) = Guard::enter() {
            let p = match DISK.try_lock() {
                Ok(d) => d.as_ref().and_then(|d| d.fds.get(&fd).cloned()),
                Err(_) => None,
            };
            if let Some(p) = p {
                trace("ftruncate", &p, format!("len={}", len), false);
            }
        }
    }
    r
}

/// raw write to a real fd, bypassing the seam (harness output)
pub fn raw_write(fd: i32, data: &[u8]) {
    unsafe {
        let f = real!("write", unsafe extern "C" fn(c_int, *const c_void, size_t) -> ssize_t);
        let mut off = 0;
        while off < data.len() {
            let r = f(fd, data[off..].as_ptr() as *const c_void, data.len() - off);
            if r <= 0 {
                break;
            }
            off += r as usize;
        }
    }
}
