//! Scenario dispatch: scenario name -> plan generator, custom steps, oracles.
use crate::world::Run;
use crate::{gen, oracle, world};
use serde_json::Value;

pub fn generate(scenario: &str, seed: u64, tier: &str) -> Value {
    let mut it = scenario.splitn(2, ':');
    let family = it.next().unwrap_or("");
    let prop = it.next().unwrap_or("");
    match family {
        "proxy" => gen::gen_proxy(seed, prop, tier),
        _ => serde_json::json!({"scenario": scenario, "seed": seed, "steps": [], "oracles": []}),
    }
}

pub async fn custom_step(run: &mut Run, _idx: usize, kind: &str, step: &Value) -> bool {
    match kind {
        "rbac_direct" => {
            oracle::rbac_direct(run, step);
            true
        }
        _ => false,
    }
}

pub async fn run(scenario: &str, seed: u64, plan: Value) -> Value {
    let mut run = world::execute(seed, plan).await;
    let family = run.plan["family"].as_str().unwrap_or("").to_string();
    match family.as_str() {
        "proxy" => oracle::check_proxy(&mut run),
        _ => {}
    }
    crate::oracle::check_panics(&mut run);
    if let Some(s) = oracle::sample_request(&run) {
        run.samples.push(s);
    }
    world::result_json(&run, scenario)
}
