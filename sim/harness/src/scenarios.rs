//! Scenario dispatch: scenario name -> plan generator, custom steps, oracles.
use crate::world::Run;
use crate::{gen, oracle, world};
use serde_json::Value;

pub fn generate(scenario: &str, seed: u64, tier: &str) -> Value {
    let mut it = scenario.splitn(2, ':');
    let family = it.next().unwrap_or("");
    let prop = it.next().unwrap_or("");
    match family {
        "proxy" => gen::gen_proxy(seed, prop, tier),
        "hostile" => crate::hostile::gen_c13(seed, tier),
        "telemetry" => crate::telemetry::gen_c18(seed, tier),
        "disk" => crate::diskuse::gen_c19(seed, tier),
        "crash" => {
            if prop == "C08-restart" {
                crate::crash::gen_restart(seed)
            } else {
                crate::crash::gen_c08(seed, tier)
            }
        }
        "provision" => crate::provision::gen_c16(seed, tier),
        "keeper" => match prop {
            "C10" => crate::keeper::gen_c10(seed, tier),
            "C12" => crate::keeper::gen_c12(seed, tier),
            _ => crate::keeper::gen_c09(seed, tier),
        },
        _ => serde_json::json!({"scenario": scenario, "seed": seed, "steps": [], "oracles": []}),
    }
}

pub async fn custom_step(run: &mut Run, _idx: usize, kind: &str, step: &Value) -> bool {
    match kind {
        "rbac_direct" => {
            oracle::rbac_direct(run, step);
            true
        }
        "audit_map_probe" => {
            // at a quiescent point every record of an accepted connection must have been consumed
            // a leftover record matters when the last client connection that used its source port was accepted
            // by the proxy listener (a connect that was refused never reaches the proxy)
            let infos = vrt::net::conn_infos();
            let mut n = 0u64;
            for k in vrt::kernel::map_keys(vrt::kernel::MAP_AUDIT) {
                if k.len() != 8 {
                    continue;
                }
                let port = u32::from_ne_bytes([k[4], k[5], k[6], k[7]]) as u16;
                let last = infos.iter().filter(|c| c.src.port() == port && c.initiator.tgid != vrt::procs::AGENT_PID).max_by_key(|c| c.id);
                if let Some(c) = last {
                    if c.accepted && c.actual_dst.to_string() == crate::hosts::PROXY {
                        n += 1;
                    }
                }
            }
            run.observations.push(("audit_map_len".into(), vrt::time::now_ns(), serde_json::json!(n)));
            true
        }
        "collect_status" => {
            if let Some(a) = run.agent.clone() {
                let st = a.get_agent_status_shared_state();
                let failed = st.get_all_failed_connection_summary().await.unwrap_or_default();
                let v: Vec<Value> = failed.iter().map(|f| serde_json::json!({"userName": f.userName, "ip": f.ip, "port": f.port, "processCmdLine": f.processCmdLine, "processFullPath": f.processFullPath, "responseStatus": f.responseStatus, "count": f.count})).collect();
                run.observations.push(("failed_summary".into(), vrt::time::now_ns(), Value::Array(v)));
                let ok = st.get_all_connection_summary().await.unwrap_or_default();
                let v: Vec<Value> = ok.iter().map(|f| serde_json::json!({"userName": f.userName, "ip": f.ip, "port": f.port, "processCmdLine": f.processCmdLine, "processFullPath": f.processFullPath, "responseStatus": f.responseStatus, "count": f.count})).collect();
                run.observations.push(("conn_summary".into(), vrt::time::now_ns(), Value::Array(v)));
            }
            let sj = crate::seams::untraced(|| std::fs::read("/var/log/azure-proxy-agent/status.json")).ok().and_then(|d| serde_json::from_slice::<Value>(&d).ok()).unwrap_or(Value::Null);
            run.observations.push(("status_json".into(), vrt::time::now_ns(), sj));
            true
        }
        other => {
            if crate::hostile::custom_step(run, _idx, other, step).await || crate::provision::custom_step(run, _idx, other, step).await || crate::crash::custom_step(run, _idx, other, step).await || crate::telemetry::custom_step(run, _idx, other, step).await || crate::diskuse::custom_step(run, _idx, other, step).await {
                true
            } else {
                crate::keeper::custom_step(run, _idx, other, step).await
            }
        }
    }
}

pub async fn run(scenario: &str, seed: u64, plan: Value) -> Value {
    let mut run = world::execute(seed, plan).await;
    let family = run.plan["family"].as_str().unwrap_or("").to_string();
    match family.as_str() {
        "proxy" => oracle::check_proxy(&mut run),
        "hostile" => crate::hostile::check_c13(&mut run),
        "telemetry" => crate::telemetry::check_c18(&mut run),
        "crash" => {
            oracle::check_proxy(&mut run);
            crate::crash::check_phase1(&mut run);
        }
        "crash_restart" => {
            oracle::check_proxy(&mut run);
            crate::crash::check_restart(&mut run);
        }
        "provision" => crate::provision::check_c16(&mut run),
        "keeper" => {
            oracle::check_proxy(&mut run);
            if run.plan["prop"] == "C09" {
                crate::keeper::check_c09(&mut run);
            }
            if run.plan["prop"] == "C12" {
                crate::keeper::check_c12(&mut run);
            }
        }
        _ => {}
    }
    crate::oracle::check_panics(&mut run);
    if let Some(s) = oracle::sample_request(&run) {
        run.samples.push(s);
    }
    world::result_json(&run, scenario)
}
