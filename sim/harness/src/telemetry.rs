//! C18: telemetry is delivered at most once, well-formed, in bounded batches. Reduced world: the real
//! `EventReader` (with its real WireServer / IMDS clients) against the simulated hosts; the event store
//! (the reader's public input) is filled by the harness with event files of any size and content; upload
//! failure patterns come from the host script.

use crate::gen::{gen_knobs, gen_procs, users_json};
use crate::hosts;
use crate::world::Run;
use azure_proxy_agent::shared_state::SharedState;
use azure_proxy_agent::telemetry::event_reader::EventReader;
use serde_json::{json, Value};
use std::collections::BTreeMap;
use vrt::Rng;

const EVENTS_DIR: &str = "/var/log/azure-proxy-agent/events";
const MAX_BATCH: usize = 64 * 1024;

fn hostile_text(r: &mut Rng, len: usize) -> String {
    let pool: [&str; 16] = ["<", ">", "&", "'", "\"", "]]>", "<![CDATA[", "é", "漢", "😀", "&amp;", "</Event>", "<Param Name=\"x\" Value=\"y\" />", " ", "a", "-->"];
    let mode = r.below(5);
    let mut s = String::new();
    while s.len() < len {
        match mode {
            0 => s.push('a'),
            1 => s.push('&'),
            2 => s.push_str(pool[r.below(pool.len() as u64) as usize]),
            3 => s.push_str(*r.pick(&["😀", "漢", "é"])),
            _ => {
                if r.chance(1, 6) {
                    s.push_str(pool[r.below(pool.len() as u64) as usize])
                } else {
                    s.push((b'a' + r.below(26) as u8) as char)
                }
            }
        }
    }
    s
}

pub fn gen_c18(seed: u64, tier: &str) -> Value {
    let mut r = Rng::derive(seed, "work");
    let procs = gen_procs(&mut r, 1, true);
    let ncycles = 1 + r.below(if tier == "thorough" { 4 } else { 2 });
    let mut cycles = Vec::new();
    let mut serial = 0u64;
    for c in 0..ncycles {
        let nfiles = 1 + r.below(4);
        let mut files = Vec::new();
        for f in 0..nfiles {
            let nev = match r.below(5) {
                0 => 0,
                1 => 1,
                2 => 2 + r.below(10),
                _ => r.below(if tier == "thorough" { 200 } else { 60 }),
            };
            let mut events = Vec::new();
            for _ in 0..nev {
                serial += 1;
                let len = match r.below(12) {
                    0 => 0,
                    1 | 2 | 3 | 4 | 5 => r.below(300),
                    6 | 7 => 1000 + r.below(4000),
                    8 => 8000 + r.below(8000),
                    9 => 20_000 + r.below(60_000),
                    10 => 13_000 + r.below(1000), // runs of '&' of this size escape to about 64 KiB
                    _ => 60_000 + r.below(10_000),
                } as usize;
                let marker = format!("mk{}x{}q", c * 100 + f, serial);
                let text = hostile_text(&mut r, len);
                events.push(json!({"marker": marker, "Message": format!("{}{}", marker, text), "TaskName": if r.chance(1, 8) { hostile_text(&mut r, 20) } else { "task".into() }, "OperationId": if r.chance(1, 8) { hostile_text(&mut r, 30) } else { "module".into() }, "EventLevel": *r.pick(&["Informational", "Warning", "Error"])}));
            }
            files.push(json!({"name": format!("{}.json", 1_800_000_000_000_000_000u64 + c * 1000 + f), "events": events}));
        }
        // upload failure pattern for this cycle
        let script: Vec<u64> = match r.below(6) {
            0 | 1 => vec![],
            2 => (0..1 + r.below(5)).map(|_| 503).collect(),
            3 => (0..30).map(|_| 500).collect(),
            4 => {
                let mut v = Vec::new();
                for _ in 0..r.below(12) {
                    v.push(*r.pick(&[200u64, 503, 200, 500, 200]));
                }
                v
            }
            _ => vec![503, 200, 503, 503, 200],
        };
        let mut faults = Vec::new();
        if r.chance(1, 5) {
            faults.push(json!({"kind": "telemetry", "fault": {"f": "reset_before"}}));
        }
        if r.chance(1, 6) {
            faults.push(json!({"kind": "telemetry", "fault": {"f": "stall", "ms": 1000 + r.below(20000)}}));
        }
        // an acknowledgement whose head arrives complete (2xx) but whose body is cut short: the batch was accepted
        for _ in 0..r.below(3) {
            if r.chance(1, 2) {
                faults.push(json!({"kind": "telemetry", "fault": {"f": "cut_body", "n": r.below(60)}}));
            }
        }
        if r.chance(1, 6) {
            faults.push(json!({"kind": *r.pick(&["goalstate", "imds_instance", "sharedconfig"]), "fault": {"f": "status", "status": 503}}));
        }
        let others = if r.chance(1, 2) { json!(["notes.txt", "old.json.bak", "123.tmp"]) } else { json!([]) };
        cycles.push(json!({"files": files, "script": script, "faults": faults, "other_files": others}));
    }
    let knobs = gen_knobs(&mut r, false);
    json!({
        "scenario": "telemetry:C18", "seed": seed, "family": "telemetry", "prop": "C18", "autostart": false,
        "knobs": knobs, "procs": procs, "users": users_json(), "oracles": ["C18"],
        "steps": [{"t": "telemetry_world", "cycles": cycles, "interval_s": 5 + r.below(30)}],
        "config": {}, "settle_ms": 100, "faulty": true,
    })
}

fn write_event_file(name: &str, events: &Value) {
    let arr: Vec<Value> = events
        .as_array()
        .cloned()
        .unwrap_or_default()
        .iter()
        .map(|e| json!({"EventLevel": e["EventLevel"], "Message": e["Message"], "Version": "9.9.9", "TaskName": e["TaskName"], "EventPid": "4242", "EventTid": "140737345", "OperationId": e["OperationId"], "TimeStamp": "2027-01-15T08:00:00.000"}))
        .collect();
    crate::seams::untraced(|| {
        let _ = std::fs::create_dir_all(EVENTS_DIR);
        let _ = std::fs::write(format!("{}/{}", EVENTS_DIR, name), serde_json::to_vec(&arr).unwrap());
    });
}

fn json_files_left() -> Vec<String> {
    crate::seams::untraced(|| std::fs::read_dir(EVENTS_DIR).map(|rd| rd.flatten().map(|e| e.file_name().to_string_lossy().to_string()).filter(|n| n.ends_with(".json")).collect()).unwrap_or_default())
}

pub async fn custom_step(run: &mut Run, _idx: usize, kind: &str, s: &Value) -> bool {
    if kind != "telemetry_world" {
        return false;
    }
    let shared = SharedState::start_all();
    run.agent = Some(shared.clone());
    let interval = std::time::Duration::from_secs(s["interval_s"].as_u64().unwrap_or(10));
    let reader = EventReader::new(EVENTS_DIR.into(), false, shared.get_cancellation_token(), shared.get_key_keeper_shared_state(), shared.get_telemetry_shared_state(), shared.get_agent_status_shared_state());
    crate::seams::untraced(|| {
        let _ = std::fs::create_dir_all(EVENTS_DIR);
    });
    let handle = vrt::sched::spawn_perturbed(async move {
        reader.start(Some(interval), None, None).await;
    });
    let cycles = s["cycles"].as_array().cloned().unwrap_or_default();
    for (ci, c) in cycles.iter().enumerate() {
        {
            let mut g = run.hosts.lock().unwrap();
            for x in c["script"].as_array().cloned().unwrap_or_default() {
                g.telemetry_script.push_back(x.as_u64().unwrap_or(200) as u16);
            }
            for f in c["faults"].as_array().cloned().unwrap_or_default() {
                if let Some(hf) = crate::world::host_fault_from_json(&f["fault"]) {
                    let kind: &'static str = match f["kind"].as_str().unwrap_or("") {
                        "telemetry" => "telemetry",
                        "goalstate" => "goalstate",
                        "imds_instance" => "imds_instance",
                        _ => "sharedconfig",
                    };
                    g.push_fault(kind, hf);
                }
            }
        }
        for o in c["other_files"].as_array().cloned().unwrap_or_default() {
            let name = o.as_str().unwrap_or("x").to_string();
            crate::seams::untraced(|| std::fs::write(format!("{}/{}", EVENTS_DIR, name), b"[]").ok());
        }
        let mut batches_upper = 1u64;
        for f in c["files"].as_array().cloned().unwrap_or_default() {
            write_event_file(f["name"].as_str().unwrap_or("x.json"), &f["events"]);
            batches_upper += 2 + f["events"].as_array().map(|a| a.len() as u64).unwrap_or(0);
        }
        let t0 = vrt::time::now_ns();
        // bounded termination: every batch is tried at most 5 times with 15 s pauses (plus the polling interval)
        let bound_s = interval.as_secs() * 2 + batches_upper * (5 * 15 + 30) + 120;
        let deadline = tokio::time::Instant::now() + std::time::Duration::from_secs(bound_s);
        loop {
            if json_files_left().is_empty() {
                break;
            }
            if tokio::time::Instant::now() >= deadline {
                run.violate("C18", "event files not consumed within the retry bound", format!("cycle {}: {:?} left after {} s", ci, json_files_left(), bound_s));
                break;
            }
            tokio::time::sleep(std::time::Duration::from_secs(1)).await;
        }
        // let the last batch of the last file finish
        tokio::time::sleep(std::time::Duration::from_secs(5 * 15 + 40)).await;
        run.observations.push(("cycle_done".into(), vrt::time::now_ns(), json!({"cycle": ci, "took_s": (vrt::time::now_ns() - t0) / 1_000_000_000})));
        let others_ok = c["other_files"].as_array().cloned().unwrap_or_default().iter().all(|o| crate::seams::untraced(|| std::path::Path::new(&format!("{}/{}", EVENTS_DIR, o.as_str().unwrap_or(""))).exists()));
        if !others_ok {
            run.violate("C18", "a file that is not an event file was removed", format!("cycle {}", ci));
        }
        run.stat("c18.cycles", 1);
    }
    shared.cancel_cancellation_token();
    let _ = tokio::time::timeout(std::time::Duration::from_secs(5), handle).await;
    true
}

/// parse `<r>payload</r>` where payload is the CDATA content of one <Event>: a sequence of <Param .../>
fn parse_params(payload: &str) -> Result<BTreeMap<String, String>, String> {
    let doc = format!("<r>{}</r>", payload);
    let mut out = BTreeMap::new();
    let mut depth = 0;
    for ev in xml::reader::EventReader::new(doc.as_bytes()) {
        match ev {
            Ok(xml::reader::XmlEvent::StartElement { name, attributes, .. }) => {
                depth += 1;
                if depth == 1 {
                    continue;
                }
                if name.local_name != "Param" || depth != 2 {
                    return Err(format!("unexpected element <{}> at depth {} inside an event", name.local_name, depth));
                }
                let mut n = None;
                let mut v = None;
                for a in attributes {
                    match a.name.local_name.as_str() {
                        "Name" => n = Some(a.value),
                        "Value" => v = Some(a.value),
                        "T" => {}
                        other => return Err(format!("unexpected attribute {} on <Param>", other)),
                    }
                }
                match (n, v) {
                    (Some(n), Some(v)) => {
                        if out.insert(n.clone(), v).is_some() {
                            return Err(format!("parameter {} appears twice", n));
                        }
                    }
                    _ => return Err("<Param> without Name/Value".into()),
                }
            }
            Ok(xml::reader::XmlEvent::EndElement { .. }) => depth -= 1,
            Ok(xml::reader::XmlEvent::Characters(t)) if depth == 1 && !t.trim().is_empty() => return Err(format!("text between parameters: {:?}", t.chars().take(40).collect::<String>())),
            Ok(_) => {}
            Err(e) => return Err(format!("event payload is not well-formed: {}", e)),
        }
    }
    Ok(out)
}

/// parse one batch: returns the CDATA payload of each <Event>
fn parse_batch(body: &[u8]) -> Result<Vec<String>, String> {
    let mut events = Vec::new();
    let mut path: Vec<String> = Vec::new();
    let mut cur: Option<String> = None;
    for ev in xml::reader::EventReader::new_with_config(body, xml::ParserConfig::new().cdata_to_characters(false).trim_whitespace(false)) {
        match ev {
            Ok(xml::reader::XmlEvent::StartElement { name, .. }) => {
                path.push(name.local_name.clone());
                let ok = match path.len() {
                    1 => name.local_name == "TelemetryData",
                    2 => name.local_name == "Provider",
                    3 => name.local_name == "Event",
                    _ => false,
                };
                if !ok {
                    return Err(format!("unexpected element structure {}", path.join("/")));
                }
                if path.len() == 3 {
                    cur = Some(String::new());
                }
            }
            Ok(xml::reader::XmlEvent::EndElement { .. }) => {
                if path.len() == 3 {
                    events.push(cur.take().unwrap_or_default());
                }
                path.pop();
            }
            Ok(xml::reader::XmlEvent::CData(t)) => {
                if path.len() == 3 {
                    if let Some(c) = cur.as_mut() {
                        c.push_str(&t);
                    }
                } else {
                    return Err("CDATA outside <Event>".into());
                }
            }
            Ok(xml::reader::XmlEvent::Characters(t)) => {
                if !t.trim().is_empty() {
                    return Err(format!("text outside CDATA at {}: {:?}", path.join("/"), t.chars().take(40).collect::<String>()));
                }
            }
            Ok(_) => {}
            Err(e) => return Err(format!("batch is not well-formed XML: {}", e)),
        }
    }
    Ok(events)
}

pub fn check_c18(run: &mut Run) {
    let plan = run.plan.clone();
    // expected events
    let mut expected: BTreeMap<String, String> = BTreeMap::new(); // marker -> message
    let mut any_failure_scripted = false;
    for c in plan["steps"][0]["cycles"].as_array().cloned().unwrap_or_default() {
        if c["script"].as_array().map(|a| a.iter().any(|x| x.as_u64() != Some(200))).unwrap_or(false) || c["faults"].as_array().map(|a| !a.is_empty()).unwrap_or(false) {
            any_failure_scripted = true;
        }
        for f in c["files"].as_array().cloned().unwrap_or_default() {
            for e in f["events"].as_array().cloned().unwrap_or_default() {
                expected.insert(e["marker"].as_str().unwrap_or("").to_string(), e["Message"].as_str().unwrap_or("").to_string());
            }
        }
    }
    let hosts_arc = run.hosts.clone();
    let g = hosts_arc.lock().unwrap();
    let uploads: Vec<&hosts::Recv> = g.log.iter().filter(|r| r.kind == "telemetry").collect();
    let mut viol: Vec<(String, String)> = Vec::new();
    // per marker: distinct bodies and successful uploads
    let mut bodies_of: BTreeMap<String, Vec<(u64, bool)>> = BTreeMap::new(); // marker -> (body hash, success)
    let mut n_batches = 0i64;
    let mut max_batch = 0usize;
    for u in uploads.iter() {
        n_batches += 1;
        max_batch = max_batch.max(u.msg.body.len());
        let ok = (200..300).contains(&u.answered_status);
        let h = u.msg.body.iter().fold(0xcbf29ce484222325u64, |a, b| (a ^ *b as u64).wrapping_mul(0x100000001b3));
        if u.msg.body.len() >= MAX_BATCH {
            viol.push(("batch of 64 KiB or more".into(), format!("{} bytes", u.msg.body.len())));
        }
        match parse_batch(&u.msg.body) {
            Err(e) => viol.push(("batch is not a well-formed telemetry document".into(), format!("{} ({} bytes)", e, u.msg.body.len()))),
            Ok(evs) => {
                if evs.is_empty() {
                    viol.push(("empty batch uploaded".into(), String::new()));
                }
                for payload in evs {
                    match parse_params(&payload) {
                        Err(e) => viol.push(("event text altered the document structure".into(), e)),
                        Ok(params) => {
                            let c1 = params.get("Context1").cloned().unwrap_or_default();
                            let marker: String = c1.chars().take_while(|c| *c != 'q').collect::<String>() + "q";
                            match expected.get(&marker) {
                                Some(orig) => {
                                    if *orig != c1 {
                                        viol.push(("event text does not arrive as the data that was logged".into(), format!("marker {}: {} bytes logged, {} bytes received", marker, orig.len(), c1.len())));
                                    }
                                    bodies_of.entry(marker).or_default().push((h, ok));
                                }
                                None => viol.push(("uploaded event that was never written to the event store".into(), c1.chars().take(60).collect())),
                            }
                        }
                    }
                }
            }
        }
    }
    for (m, v) in bodies_of.iter() {
        let mut distinct: Vec<u64> = v.iter().map(|x| x.0).collect();
        distinct.sort();
        distinct.dedup();
        let successes = v.iter().filter(|x| x.1).count();
        if distinct.len() > 1 {
            viol.push(("event uploaded in more than one batch".into(), format!("marker {} appears in {} different batches", m, distinct.len())));
        }
        if successes > 1 {
            viol.push(("event delivered more than once".into(), format!("marker {}: {} successful uploads", m, successes)));
        }
    }
    // without upload failures every event that fits is delivered exactly once
    if !any_failure_scripted {
        for (m, msg) in expected.iter() {
            // an event fits when a batch holding only this event stays below 64 KiB: escaped length + fixed part
            let escaped = msg.replace('&', "&amp;").replace('\'', "&apos;").replace('"', "&quot;").replace('<', "&lt;").replace('>', "&gt;").len();
            let fits = escaped + 2600 < MAX_BATCH;
            let delivered = bodies_of.get(m).map(|v| v.iter().filter(|x| x.1).count()).unwrap_or(0);
            if fits && delivered != 1 {
                viol.push(("event that fits a batch was not delivered although no upload failed".into(), format!("marker {} ({} bytes escaped) delivered {} times", m, escaped, delivered)));
            }
        }
        run.stat("c18.exactly_once_runs", 1);
    }
    drop(g);
    run.stat("c18.batches", n_batches);
    run.stat("c18.events_expected", expected.len() as i64);
    run.stat("c18.events_seen", bodies_of.len() as i64);
    run.stat("c18.largest_batch_bytes_summed_over_runs", max_batch as i64);
    for (c, d) in viol {
        run.violate("C18", &c, d);
    }
}
