//! Simulated metadata hosts: WireServer (168.63.129.16:80), HostGAPlugin (168.63.129.16:32526),
//! IMDS (169.254.169.254:80) and an arbitrary "other" host. Own HTTP codec, own crypto, own
//! canonicaliser. Everything a host receives is recorded raw; the secure-channel protocol
//! (status / key / key-attestation) is a small state machine driven by a script.

use crate::crypto;
use crate::http::{self, Body, Msg, RErr, Reader};
use serde_json::{json, Value};
use std::collections::{BTreeMap, VecDeque};
use std::sync::{Arc, Mutex};
use std::time::Duration;
use tokio::io::AsyncWriteExt;
use vrt::net::{TcpListener, TcpStream};

pub const WIRE: &str = "168.63.129.16:80";
pub const GA: &str = "168.63.129.16:32526";
pub const IMDS: &str = "169.254.169.254:80";
pub const OTHER: &str = "10.9.8.7:8080";
pub const PROXY: &str = "127.0.0.1:3080";

#[derive(Clone, Debug, PartialEq)]
pub enum SigCheck {
    /// no authorization header
    None,
    /// verified under the key registered for the announced id; which parameter order matched
    Valid { guid: String, order: &'static str },
    Invalid { guid: String, why: String },
    /// more than one authorization header, or malformed
    Malformed(String),
    /// cannot be judged (duplicate header names in the received set)
    NotJudged(String),
}

#[derive(Clone, Debug)]
pub struct Recv {
    pub host: &'static str,
    pub conn: u64,
    pub idx_on_conn: usize,
    pub msg: Msg,
    pub sig: SigCheck,
    /// the guid the host regarded as latched when the request arrived
    pub latched_at_recv: Option<String>,
    pub token: Option<String>,
    pub kind: &'static str, // status | acquire | attest | goalstate | sharedconfig | imds_instance | telemetry | echo
    pub answered_status: u16,
    pub seq: u64,
    pub wall_recv_ns: i128,
    /// how long the host waited before it started to write its answer (stall faults, scripted delays)
    pub answer_delay_ms: u64,
}

#[derive(Clone, Debug, Default)]
pub struct RespSpec {
    pub status: u16,
    pub headers: Vec<(String, Vec<u8>)>,
    pub body: Vec<u8>,
    /// None = Content-Length; Some(sizes) = chunked with these sizes; close_delimited overrides
    pub chunked: Option<Vec<usize>>,
    pub close_delimited: bool,
    pub delay_ms: u64,
    /// write only this many bytes of the serialised response, then close the connection
    pub cut_after: Option<usize>,
    /// close the connection after this response
    pub close_after: bool,
}

/// a scripted misbehaviour for the next request of a kind
#[derive(Clone, Debug)]
pub enum HostFault {
    Status(u16),                 // answer with this error status and a body
    StatusWithBody(u16, Vec<u8>, String), // status, body, content-type
    MalformedBody(Vec<u8>, String), // 200 with this body and content type
    ResetBefore,                 // reset the connection before processing
    ResetAfter,                  // process (state changes) then reset instead of answering
    Stall(u64),                  // wait ms then answer normally
    CutResponse(usize),          // answer normally but cut after n bytes and close
    CutBody(usize),              // answer normally, complete head, but cut n bytes into the body and close
    /// acquire only: issue a key but deliver its document in a defective form that still contains the value
    KeyDoc(String),
}

pub struct HostState {
    pub seq: u64,
    pub log: Vec<Recv>,
    // --- secure channel protocol
    pub status_doc: Value, // served by GET /secure-channel/status, keyGuid filled from `latched`
    pub latched: Option<(String, String)>, // (guid, hex key)
    pub issued: BTreeMap<String, String>,  // every key ever issued or pre-registered: guid -> hex key
    pub key_counter: u64,
    pub status_calls: u64,
    pub status_ok: u64, // answered completely without injected error
    pub acquire_calls: u64,
    pub attest_calls: u64,
    pub attest_ok: u64,
    pub key_hex_upper: bool,
    pub faults: BTreeMap<&'static str, VecDeque<HostFault>>,
    pub resp_specs: BTreeMap<String, RespSpec>, // by token
    /// client requests (by token) that a scripted host fault was applied to
    pub faulted_tokens: BTreeMap<String, HostFault>,
    /// for answers cut by a fault: where the cut fell ("head" | "body" | "beyond") and the complete encoded body part of
    /// the answer the host meant to send
    pub cut_places: BTreeMap<String, (&'static str, Vec<u8>)>,
    pub telemetry_script: VecDeque<u16>,        // statuses for successive telemetry uploads (empty = 200)
    pub history: Vec<String>,                   // protocol-level trace for C08/C09
    pub notify: Arc<tokio::sync::Notify>,
    pub seed: u64,
    /// poll generation: incremented whenever status_doc / latched changes by script
    pub doc_version: u64,
    /// (doc_version, status_ok count) at each successfully answered status
    pub served_versions: Vec<(u64, u64)>,
    /// (reported channel state, which of wireserver/imds/hostga the reported modes switch on) per successful status answer
    pub served_states: Vec<(String, String)>,
    pub instance_doc: Value,
}

pub type Shared = Arc<Mutex<HostState>>;

pub fn default_status_doc_v1(state: &str) -> Value {
    json!({
        "authorizationScheme": "Azure-HMAC-SHA256",
        "keyDeliveryMethod": "http",
        "keyGuid": null,
        "requiredClaimsHeaderPairs": ["isRoot"],
        "secureChannelState": state,
        "version": "1.0"
    })
}

pub fn new_state(seed: u64) -> Shared {
    Arc::new(Mutex::new(HostState {
        seq: 0,
        log: Vec::new(),
        status_doc: default_status_doc_v1("disabled"),
        latched: None,
        issued: BTreeMap::new(),
        key_counter: 0,
        status_calls: 0,
        status_ok: 0,
        acquire_calls: 0,
        attest_calls: 0,
        attest_ok: 0,
        key_hex_upper: true,
        faults: BTreeMap::new(),
        resp_specs: BTreeMap::new(),
        faulted_tokens: BTreeMap::new(),
        cut_places: BTreeMap::new(),
        telemetry_script: VecDeque::new(),
        history: Vec::new(),
        notify: Arc::new(tokio::sync::Notify::new()),
        seed,
        doc_version: 0,
        served_versions: Vec::new(),
        served_states: Vec::new(),
        instance_doc: json!({"compute": {"location": "westus", "name": "simvm", "resourceGroupName": "simrg", "subscriptionId": "00000000-1111-2222-3333-444444444444", "vmId": "02aab8a4-74ef-476e-8182-f6d2ba4166a6", "vmSize": "Standard_A3", "offer": "WindowsServer"}}),
    }))
}

impl HostState {
    pub fn push_fault(&mut self, kind: &'static str, f: HostFault) {
        self.faults.entry(kind).or_default().push_back(f);
    }
    fn take_fault(&mut self, kind: &'static str) -> Option<HostFault> {
        self.faults.get_mut(kind).and_then(|q| q.pop_front())
    }
    /// issue a fresh key (guid and 32 random bytes derived from the run seed and a counter)
    pub fn new_key(&mut self) -> (String, String) {
        self.key_counter += 1;
        let mut r = vrt::Rng::derive(self.seed ^ self.key_counter.wrapping_mul(0x9E37_79B9), "hostkey");
        let mut g = [0u8; 16];
        r.fill(&mut g);
        let guid = format!(
            "{}-{}-{}-{}-{}",
            crypto::hex(&g[0..4]),
            crypto::hex(&g[4..6]),
            crypto::hex(&g[6..8]),
            crypto::hex(&g[8..10]),
            crypto::hex(&g[10..16])
        );
        let mut k = [0u8; 32];
        r.fill(&mut k);
        let mut key = crypto::hex(&k);
        if self.key_hex_upper {
            key = key.to_uppercase();
        }
        self.issued.insert(guid.clone(), key.clone());
        (guid, key)
    }
    pub fn set_doc(&mut self, doc: Value) {
        self.status_doc = doc;
        self.doc_version += 1;
    }
    pub fn set_latched(&mut self, l: Option<(String, String)>) {
        self.latched = l;
        self.doc_version += 1;
    }
    pub fn current_status_body(&self) -> Vec<u8> {
        let mut d = self.status_doc.clone();
        if let Some(o) = d.as_object_mut() {
            if !o.contains_key("keyGuid") || o["keyGuid"].is_null() {
                o.insert("keyGuid".into(), match &self.latched { Some((g, _)) => json!(g), None => Value::Null });
            }
        }
        serde_json::to_vec(&d).unwrap()
    }
}

// ------------------------------------------------------------------------------------------------
// canonical string, from the comment block in hyper_client.rs, computed from the raw received request

pub fn split_target(target: &str) -> (String, String) {
    // origin-form or absolute-form
    let t = if let Some(rest) = target.strip_prefix("http://") { match rest.find('/') { Some(i) => &rest[i..], None => "/" } } else { target };
    match t.find('?') {
        Some(i) => (t[..i].to_string(), t[i + 1..].to_string()),
        None => (t.to_string(), String::new()),
    }
}

pub fn query_pairs(q: &str) -> Vec<(String, String)> {
    let mut v = Vec::new();
    for p in q.split('&') {
        let (k, val) = match p.find('=') {
            Some(i) => (&p[..i], &p[i + 1..]),
            None => (p, ""),
        };
        if k.is_empty() {
            continue;
        }
        v.push((k.to_string(), val.to_string()));
    }
    v
}

/// returns candidate canonical strings (one per accepted parameter ordering), or Err if not judgeable
pub fn canonical_candidates(m: &Msg) -> Result<Vec<(&'static str, Vec<u8>)>, String> {
    let mut hs: Vec<(String, Vec<u8>)> = Vec::new();
    for (n, v) in &m.head.headers {
        let ln = n.to_ascii_lowercase();
        if ln == "x-ms-azure-host-authorization" {
            continue;
        }
        if hs.iter().any(|(x, _)| *x == ln) {
            return Err(format!("duplicate header name {}", ln));
        }
        hs.push((ln, v.clone()));
    }
    hs.sort_by(|a, b| a.0.cmp(&b.0));
    let mut prefix: Vec<u8> = Vec::new();
    prefix.extend_from_slice(m.method().as_bytes());
    prefix.push(b'\n');
    prefix.extend_from_slice(&m.body);
    prefix.push(b'\n');
    for (n, v) in &hs {
        prefix.extend_from_slice(n.as_bytes());
        prefix.push(b':');
        prefix.extend_from_slice(v); // already trimmed of surrounding blanks by the codec
        prefix.push(b'\n');
    }
    let (path, query) = split_target(m.target());
    prefix.extend_from_slice(path.as_bytes());
    prefix.push(b'\n');
    let pairs: Vec<(String, String)> = query_pairs(&query).into_iter().map(|(k, v)| (k.to_lowercase(), v)).collect();
    let render = |ps: &Vec<(String, String)>| -> String { ps.iter().map(|(k, v)| if v.is_empty() { k.clone() } else { format!("{}={}", k, v) }).collect::<Vec<_>>().join("&") };
    let mut by_tuple = pairs.clone();
    by_tuple.sort();
    let mut by_concat = pairs.clone();
    by_concat.sort_by(|a, b| format!("{}{}", a.0, a.1).cmp(&format!("{}{}", b.0, b.1)).then_with(|| a.cmp(b)));
    let mut out = Vec::new();
    let mut c1 = prefix.clone();
    c1.extend_from_slice(render(&by_tuple).as_bytes());
    out.push(("tuple", c1));
    if by_concat != by_tuple {
        let mut c2 = prefix.clone();
        c2.extend_from_slice(render(&by_concat).as_bytes());
        out.push(("concat", c2));
    }
    Ok(out)
}

pub fn check_signature(m: &Msg, issued: &BTreeMap<String, String>) -> SigCheck {
    let auths = m.head.get_all("x-ms-azure-host-authorization");
    if auths.is_empty() {
        return SigCheck::None;
    }
    if auths.len() > 1 {
        return SigCheck::Malformed(format!("{} authorization headers", auths.len()));
    }
    let v = String::from_utf8_lossy(auths[0]).to_string();
    let parts: Vec<&str> = v.split(' ').collect();
    if parts.len() != 3 || parts[0] != "Azure-HMAC-SHA256" {
        return SigCheck::Malformed(format!("authorization value {:?}", v));
    }
    let (guid, mac) = (parts[1].to_string(), parts[2].to_string());
    let key_hex = match issued.get(&guid) {
        Some(k) => k.clone(),
        None => return SigCheck::Invalid { guid, why: "unknown key id".into() },
    };
    let key = match crypto::unhex(&key_hex) {
        Some(k) => k,
        None => return SigCheck::Invalid { guid, why: "registered key is not hex".into() },
    };
    let cands = match canonical_candidates(m) {
        Ok(c) => c,
        Err(e) => return SigCheck::NotJudged(e),
    };
    for (order, c) in cands {
        if crypto::hex(&crypto::hmac_sha256(&key, &c)) == mac.to_lowercase() {
            return SigCheck::Valid { guid, order };
        }
    }
    // is it the MAC of this very request under *another* key the host has issued?
    if let Ok(cands) = canonical_candidates(m) {
        for (g2, k2) in issued.iter() {
            if *g2 == guid {
                continue;
            }
            if let Some(kb) = crypto::unhex(k2) {
                for (_, c) in cands.iter() {
                    if crypto::hex(&crypto::hmac_sha256(&kb, c)) == mac.to_lowercase() {
                        return SigCheck::Invalid { guid, why: format!("key id and MAC name different keys: the MAC was computed under key {}", g2) };
                    }
                }
            }
        }
    }
    SigCheck::Invalid { guid, why: "MAC does not match the canonical string of the received request".into() }
}

// ------------------------------------------------------------------------------------------------
pub const GOAL_STATE_XML: &str = r#"<?xml version="1.0" encoding="utf-8"?>
<GoalState xmlns:xsi="http://www.w3.org/2001/XMLSchema-instance" xsi:noNamespaceSchemaLocation="goalstate10.xsd">
  <Version>2015-04-05</Version>
  <Incarnation>16</Incarnation>
  <Machine>
    <ExpectedState>Started</ExpectedState>
    <StopRolesDeadlineHint>300000</StopRolesDeadlineHint>
    <LBProbePorts><Port>16001</Port></LBProbePorts>
    <ExpectHealthReport>TRUE</ExpectHealthReport>
  </Machine>
  <Container>
    <ContainerId>374188df-b0a2-456a-a7b2-83f28b18d36f</ContainerId>
    <RoleInstanceList>
      <RoleInstance>
        <InstanceId>7d2798bb72a0413d9a60b355277df726.TenantAdminApi.Worker_IN_0</InstanceId>
        <State>Started</State>
        <Configuration>
          <HostingEnvironmentConfig>http://168.63.129.16:80/machine/374188df/x?comp=config&amp;type=hostingEnvironmentConfig&amp;incarnation=16</HostingEnvironmentConfig>
          <SharedConfig>http://168.63.129.16:80/machine/374188df/x?comp=config&amp;type=sharedConfig&amp;incarnation=16</SharedConfig>
          <ExtensionsConfig>http://168.63.129.16:80/machine/374188df/x?comp=config&amp;type=extensionsConfig&amp;incarnation=16</ExtensionsConfig>
          <FullConfig>http://168.63.129.16:80/machine/374188df/x?comp=config&amp;type=fullConfig&amp;incarnation=16</FullConfig>
          <Certificates>http://168.63.129.16:80/machine/374188df/x?comp=certificates&amp;incarnation=16</Certificates>
          <ConfigName>7d2798bb72a0413d9a60b355277df726.132.xml</ConfigName>
        </Configuration>
      </RoleInstance>
    </RoleInstanceList>
  </Container>
</GoalState>"#;

pub const SHARED_CONFIG_XML: &str = r#"<?xml version="1.0" encoding="utf-8"?>
<SharedConfig version="1.0.0.0" goalStateIncarnation="16">
  <Deployment name="7d2798bb72a0413d9a60b355277df726" guid="{25a2c1a1-2986-4d1c-bd37-6abe8571218d}" incarnation="132" isNonCancellableTopologyChangeEnabled="false">
    <Service name="TenantAdminApi.Cloud" guid="{00000000-0000-0000-0000-000000000000}" />
    <ServiceInstance name="7d2798bb72a0413d9a60b355277df726.78" guid="{2733116f-69db-411d-91a0-a1f55849ba23}" />
  </Deployment>
  <Incarnation number="1" instance="TenantAdminApi.Worker_IN_0" guid="{b0b40fde-461e-461b-a451-af58347321a9}" />
  <Role guid="{953935f8-9317-74e0-4236-7854486dd013}" name="TenantAdminApi.Worker" settleTimeSeconds="0" />
  <Instances>
    <Instance id="TenantAdminApi.Worker_IN_0" address="10.1.64.6"></Instance>
  </Instances>
</SharedConfig>"#;

fn classify(host: &'static str, m: &Msg) -> &'static str {
    let (path, query) = split_target(m.target());
    let lp = path.to_lowercase();
    if host == WIRE {
        if m.method() == "GET" && lp == "/secure-channel/status" {
            return "status";
        }
        if m.method() == "POST" && lp == "/secure-channel/key" {
            return "acquire";
        }
        if m.method() == "POST" && lp.starts_with("/secure-channel/key/") && lp.ends_with("/key-attestation") {
            return "attest";
        }
        if m.method() == "GET" && lp == "/machine" && query.to_lowercase().contains("comp=goalstate") && m.head.get("x-vtok").is_none() {
            return "goalstate";
        }
        if m.method() == "GET" && lp.starts_with("/machine/") && query.contains("type=sharedConfig") && m.head.get("x-vtok").is_none() {
            return "sharedconfig";
        }
        if m.method() == "POST" && lp == "/machine/" && query.to_lowercase() == "comp=telemetrydata" && m.head.get("x-vtok").is_none() {
            return "telemetry";
        }
    }
    if host == IMDS && m.method() == "GET" && lp == "/metadata/instance" && m.head.get("x-vtok").is_none() {
        return "imds_instance";
    }
    "echo"
}

struct Answer {
    bytes: Vec<u8>,
    delay_ms: u64,
    cut_after: Option<usize>,
    close: bool,
    reset: bool,
    status: u16,
}

fn simple(status: u16, ctype: &str, body: &[u8]) -> Answer {
    let hs = vec![("Content-Type".to_string(), ctype.as_bytes().to_vec())];
    Answer { bytes: http::build_response(status, http::reason(status), &hs, Body::Len(body), false), delay_ms: 0, cut_after: None, close: false, reset: false, status }
}

fn handle(st: &Shared, host: &'static str, conn: u64, idx: usize, m: Msg) -> Answer {
    let mut g = st.lock().unwrap();
    let kind = classify(host, &m);
    let sig = check_signature(&m, &g.issued);
    let token = m.head.get("x-vtok");
    g.seq += 1;
    let seq = g.seq;
    let latched_at_recv = g.latched.as_ref().map(|(a, _)| a.clone());
    // scripted faults are queued per request kind; requests of local clients (they carry a token) additionally draw
    // from the "client" queue, whatever their URL classifies as
    let fault = match kind {
        "echo" => None,
        k => g.take_fault(k),
    };
    let fault = match fault {
        None if token.is_some() => g.take_fault("client"),
        f => f,
    };
    if let (Some(f), Some(t)) = (&fault, &token) {
        g.faulted_tokens.insert(t.clone(), f.clone());
    }
    let mut ans;
    let mut process = true;
    if let Some(HostFault::ResetBefore) = fault {
        process = false;
    }
    if let Some(HostFault::Status(_)) | Some(HostFault::StatusWithBody(..)) | Some(HostFault::MalformedBody(..)) = fault {
        process = false;
    }
    let key_doc_variant = match &fault {
        Some(HostFault::KeyDoc(v)) if kind == "acquire" => Some(v.clone()),
        _ => None,
    };
    let faulted = fault.is_some();
    ans = match kind {
        "status" => {
            g.status_calls += 1;
            let body = g.current_status_body();
            if process {
                let h = format!("status#{} served v{} latched={:?}", g.status_calls, g.doc_version, latched_at_recv);
                g.history.push(h);
            }
            simple(200, "application/json; charset=utf-8", &body)
        }
        "acquire" => {
            g.acquire_calls += 1;
            if let (true, Some(variant)) = (process, key_doc_variant.as_ref()) {
                let (guid, mut key) = g.new_key();
                match variant.as_str() {
                    "nonhex" => {
                        key.pop();
                        key.push('Z');
                        g.issued.insert(guid.clone(), key.clone());
                    }
                    "oddlen" => {
                        key.pop();
                        g.issued.insert(guid.clone(), key.clone());
                    }
                    _ => {}
                }
                let h = format!("acquire#{} issued {} in defective form {}", g.acquire_calls, guid, variant);
                g.history.push(h);
                let full = json!({"authorizationScheme": "Azure-HMAC-SHA256", "guid": guid, "issued": "2027-01-15T08:00:00Z", "key": key});
                let (body, ctype): (Vec<u8>, &str) = match variant.as_str() {
                    "missing_issued" => (serde_json::to_vec(&json!({"authorizationScheme": "Azure-HMAC-SHA256", "guid": guid, "key": key})).unwrap(), "application/json; charset=utf-8"),
                    "wrong_type" => (serde_json::to_vec(&json!({"authorizationScheme": "Azure-HMAC-SHA256", "guid": guid, "issued": "x", "incarnationId": "one", "key": key})).unwrap(), "application/json; charset=utf-8"),
                    "truncated" => {
                        let b = serde_json::to_vec(&full).unwrap();
                        let n = b.len() - 2;
                        (b[..n].to_vec(), "application/json; charset=utf-8")
                    }
                    "utf16" => (serde_json::to_string(&full).unwrap().encode_utf16().flat_map(|u| u.to_le_bytes()).collect(), "application/json; charset=utf-16"),
                    "xml_type" => (serde_json::to_vec(&full).unwrap(), "text/xml; charset=utf-8"),
                    _ => (serde_json::to_vec(&full).unwrap(), "application/json; charset=utf-8"),
                };
                simple(200, ctype, &body)
            } else if process {
                let (guid, key) = g.new_key();
                let h = format!("acquire#{} issued {}", g.acquire_calls, guid);
                g.history.push(h);
                let body = serde_json::to_vec(&json!({"authorizationScheme": "Azure-HMAC-SHA256", "guid": guid, "issued": "2027-01-15T08:00:00Z", "key": key})).unwrap();
                simple(200, "application/json; charset=utf-8", &body)
            } else {
                simple(200, "application/json", b"{}")
            }
        }
        "attest" => {
            g.attest_calls += 1;
            let (path, _) = split_target(m.target());
            let segs: Vec<&str> = path.split('/').collect();
            let guid = segs.get(3).map(|s| s.to_string()).unwrap_or_default();
            if process {
                let ok = matches!(&sig, SigCheck::Valid { guid: g2, .. } if *g2 == guid);
                if ok {
                    let key = g.issued.get(&guid).cloned().unwrap_or_default();
                    g.latched = Some((guid.clone(), key));
                    g.attest_ok += 1;
                    let h = format!("attest#{} latched {}", g.attest_calls, guid);
                    g.history.push(h);
                    simple(200, "application/json", b"")
                } else {
                    let h = format!("attest#{} rejected {} ({:?})", g.attest_calls, guid, sig);
                    g.history.push(h);
                    simple(403, "text/plain", b"attestation rejected")
                }
            } else {
                simple(200, "application/json", b"")
            }
        }
        "goalstate" => simple(200, "text/xml; charset=utf-8", GOAL_STATE_XML.as_bytes()),
        "sharedconfig" => simple(200, "text/xml; charset=utf-8", SHARED_CONFIG_XML.as_bytes()),
        "imds_instance" => {
            let b = serde_json::to_vec(&g.instance_doc).unwrap();
            simple(200, "application/json; charset=utf-8", &b)
        }
        "telemetry" => {
            let s = g.telemetry_script.pop_front().unwrap_or(200);
            // every other acknowledgement carries a small body (the real host's answers do, now and then)
            if s == 200 && seq % 2 == 0 {
                simple(s, "text/xml", b"<?xml version=\"1.0\" encoding=\"utf-8\"?><TelemetryAck>accepted</TelemetryAck>")
            } else {
                simple(s, "text/plain", b"")
            }
        }
        _ => {
            // echo host: answer per the response spec registered for the token, else a default
            let spec = token.as_ref().and_then(|t| g.resp_specs.get(t).cloned());
            match spec {
                Some(s) => {
                    let head_only = m.method() == "HEAD";
                    let bytes = if s.status == 204 || s.status == 304 {
                        // (these never carry a body, whatever framing the script asked for)
                        http::build_response(s.status, http::reason(s.status), &s.headers, Body::None, head_only)
                    } else if s.close_delimited {
                        let mut b = http::build_response(s.status, http::reason(s.status), &s.headers, Body::None, head_only);
                        if !head_only {
                            b.extend_from_slice(&s.body);
                        }
                        b
                    } else if s.status == 204 || s.status == 304 {
                        // (these never carry a body, whatever framing the script asked for)
                        http::build_response(s.status, http::reason(s.status), &s.headers, Body::None, head_only)
                    } else if let Some(sz) = &s.chunked {
                        http::build_response(s.status, http::reason(s.status), &s.headers, Body::Chunked(&s.body, sz), head_only)
                    } else {
                        http::build_response(s.status, http::reason(s.status), &s.headers, Body::Len(&s.body), head_only)
                    };
                    Answer { bytes, delay_ms: s.delay_ms, cut_after: s.cut_after, close: s.close_after || s.close_delimited, reset: false, status: s.status }
                }
                None => {
                    let body = format!("echo {} {} tok={}", m.method(), m.target(), token.clone().unwrap_or_default());
                    let mut a = simple(200, "text/plain", body.as_bytes());
                    if m.method() == "HEAD" {
                        let hs = vec![("Content-Type".to_string(), b"text/plain".to_vec())];
                        a.bytes = http::build_response(200, "OK", &hs, Body::Len(body.as_bytes()), true);
                    }
                    a
                }
            }
        }
    };
    // apply scripted fault (the answer to a HEAD request never carries a body, whatever its status)
    let head_only = m.method() == "HEAD";
    let simple_m = |status: u16, ctype: &str, body: &[u8]| -> Answer {
        let mut a = simple(status, ctype, body);
        if head_only {
            let hs = vec![("Content-Type".to_string(), ctype.as_bytes().to_vec())];
            a.bytes = http::build_response(status, http::reason(status), &hs, Body::Len(body), true);
        }
        a
    };
    match fault {
        Some(HostFault::Status(s)) => ans = simple_m(s, "text/plain", format!("injected error {}", s).as_bytes()),
        Some(HostFault::StatusWithBody(s, b, ct)) => ans = simple_m(s, &ct, &b),
        Some(HostFault::MalformedBody(b, ct)) => ans = simple_m(200, &ct, &b),
        Some(HostFault::ResetBefore) => {
            ans.reset = true;
            ans.status = 0; // never processed, never answered
        }
        Some(HostFault::ResetAfter) => ans.reset = true,
        Some(HostFault::Stall(ms)) => ans.delay_ms += ms,
        Some(HostFault::CutResponse(n)) => {
            ans.cut_after = Some(n);
            ans.close = true;
            // where the cut falls: inside the head, inside the body, or beyond the end (no cut at all)
            let head_end = ans.bytes.windows(4).position(|w| w == b"\r\n\r\n").map(|i| i + 4).unwrap_or(ans.bytes.len());
            if let Some(t) = &token {
                let place = if n >= ans.bytes.len() { "beyond" } else if n >= head_end { "body" } else { "head" };
                g.cut_places.insert(t.clone(), (place, ans.bytes[head_end.min(ans.bytes.len())..].to_vec()));
            }
        }
        Some(HostFault::CutBody(extra)) => {
            let head_end = ans.bytes.windows(4).position(|w| w == b"\r\n\r\n").map(|i| i + 4).unwrap_or(ans.bytes.len());
            if head_end < ans.bytes.len() {
                ans.cut_after = Some((head_end + extra).min(ans.bytes.len() - 1));
                ans.close = true;
            }
        }
        Some(HostFault::KeyDoc(_)) => {}
        None => {}
    }
    // a status answer counts as served when nothing stands between it and the agent: no scripted host fault and no
    // connection-level fault attached to the connection that carries it
    let conn_clean = vrt::net::conn_info(conn).map(|c| c.faults.is_empty()).unwrap_or(true);
    if kind == "status" && !faulted && ans.status == 200 && conn_clean {
        g.status_ok += 1;
        let v = (g.doc_version, g.status_ok);
        g.served_versions.push(v);
        // what this answer reported: the channel state as one value, and which endpoints its modes switch on
        let st = crate::keeper::ref_state(&g.status_doc);
        let (w, i, hh) = crate::keeper::ref_modes(&g.status_doc);
        let on = |m: &str| m == "enforce" || m == "audit";
        let triple = format!("{}{}{}", on(&w) as u8, on(&i) as u8, on(&hh) as u8);
        g.served_states.push((st, triple));
    }
    if faulted {
        let _ = vrt::try_with(|w| w.count(&format!("fault.host_{}", kind)));
    }
    let status = ans.status;
    g.log.push(Recv { host, conn, idx_on_conn: idx, msg: m, sig, latched_at_recv, token, kind, answered_status: status, seq, wall_recv_ns: vrt::time::wall_now_ns(), answer_delay_ms: ans.delay_ms });
    let _ = vrt::try_with(|w| w.log("host", format!("{} conn={} #{} {} -> {}", host, conn, idx, kind, status)));
    g.notify.notify_waiters();
    crate::crash::note_host_state(&g);
    ans
}

async fn serve_conn(st: Shared, host: &'static str, stream: TcpStream) {
    let conn = stream.id();
    let mut rd = Reader::new(stream);
    let mut idx = 0usize;
    loop {
        let m = match rd.read_request().await {
            Ok(m) => m,
            Err(RErr::Eof) => return,
            Err(e) => {
                let _ = vrt::try_with(|w| w.log("host", format!("{} conn={} read error {:?}", host, conn, e)));
                return;
            }
        };
        let ans = handle(&st, host, conn, idx, m);
        idx += 1;
        if ans.delay_ms > 0 {
            tokio::time::sleep(Duration::from_millis(ans.delay_ms)).await;
        }
        if ans.reset {
            rd.s.reset();
            return;
        }
        let bytes = match ans.cut_after {
            Some(n) => &ans.bytes[..n.min(ans.bytes.len())],
            None => &ans.bytes[..],
        };
        if rd.s.write_all(bytes).await.is_err() {
            return;
        }
        if ans.close || ans.cut_after.is_some() {
            let _ = rd.s.shutdown().await;
            return;
        }
    }
}

pub async fn run_host(st: Shared, addr: &'static str) {
    let l = TcpListener::bind(addr).await.expect("host bind");
    loop {
        match l.accept().await {
            Ok((s, _)) => {
                tokio::spawn(serve_conn(st.clone(), addr, s));
            }
            Err(_) => {}
        }
    }
}

pub fn start_all(st: &Shared) {
    for a in [WIRE, GA, IMDS, OTHER] {
        tokio::spawn(run_host(st.clone(), a));
    }
}
