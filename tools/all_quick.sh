#!/bin/bash
# usage: tools/all_quick.sh [seed...]  -- every registered quick check on the current tree, once per base seed; prints one line per check
cd /verif
for s in "${@:-20260926}"; do
  for p in C01 C02 C03 C04 C05 C06 C07 C08 C09 C10 C11 C12 C13 C14 C15 C16 C17 C18 C19; do
    out=$(VERIF_SEED=$s ./bin/check $p quick 2>&1); rc=$?
    echo "seed=$s rc=$rc $(echo "$out" | tail -1 | cut -c1-160)"
    if [ $rc -ne 0 ]; then echo "$out" | grep -E 'VIOLATION|violation:|HARNESS' | head -5 | cut -c1-300; fi
  done
done
