#!/bin/bash
# usage: tools/all_thorough.sh [PROP...]  -- every registered thorough check on the current tree; one summary line per check in
# /verif/.build/thorough.log (do not edit or rebuild the harness while this runs)
cd /verif
log=/verif/.build/thorough.log
: > $log
for p in ${@:-C02 C03 C04 C05 C06 C08 C09 C10 C11 C12 C13 C14 C15 C16 C17 C18 C19 C01 C07}; do
  start=$(date +%s)
  out=$(./bin/check $p thorough 2>&1); rc=$?
  echo "rc=$rc $(( $(date +%s) - start ))s $(echo "$out" | tail -1 | cut -c1-200)" >> $log
  if [ $rc -ne 0 ]; then echo "$out" | grep -E 'VIOLATION|violation:|HARNESS' | head -5 | cut -c1-300 >> $log; fi
  cp evidence/$p.json .build/thorough-evidence-$p.json 2>/dev/null
done
echo ALL-DONE >> $log
