#!/bin/bash
# usage: tools/known_witness.sh <finding-id> <PROP>  -- writes /verif/findings/<finding-id>.replay.json: a minimised witness of
# a finding listed in known_findings.json (the check is run with that one entry ignored, so it reports it as a violation)
id=$1; p=$2
cd /verif
out=$(VERIF_NO_EVIDENCE=1 VERIF_WITNESS_FOR=$id ./bin/check $p quick 2>&1)
f=$(echo "$out" | grep '^VIOLATION' | head -1 | sed 's/.*replay=//')
[ -n "$f" ] || { echo "no witness produced"; exit 2; }
cp "$f" findings/$id.replay.json && echo "findings/$id.replay.json"
echo "$out" | grep '^violation:' | head -2 | cut -c1-300
rm -rf /verif/replays
