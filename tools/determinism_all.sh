#!/bin/bash
# Determinism proof (DESIGN.md §7.4): every seed executed 4 times (twice per worker; with 16 and with 3 workers); the
# canonical event-log digests and event counts must be identical. Writes /verif/evidence/determinism.json
N=${1:-500}
cd /verif
out=/verif/evidence/determinism.json
echo '{"runs_per_property":'$N',"executions_per_seed":4,"results":[' > $out.tmp
first=1
for p in C01 C02 C03 C04 C05 C06 C07 C08 C09 C10 C11 C12 C13 C14 C15 C16 C17 C18 C19; do
  n=$N; [ $p = C08 ] && n=24; [ $p = C18 ] && n=$((N/4))
  line=$(./bin/check determinism $p --runs $n 2>&1 | grep '^determinism\|DIVERGENCE\|HARNESS' | tail -3 | tr '\n' ' ' | sed 's/"/\\"/g')
  [ $first = 1 ] || echo ',' >> $out.tmp; first=0
  echo "{\"property\":\"$p\",\"result\":\"$line\"}" >> $out.tmp
  echo "$line"
done
echo ']}' >> $out.tmp; mv $out.tmp $out
