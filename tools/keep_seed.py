#!/usr/bin/env python3
"""usage: keep_seed.py <ID> <name> <caught_by comma list> <note>  -- stores a confirmed seeded change under /verif/seeded/<name>/"""
import json,sys,shutil,os
ID,name,caught,note=sys.argv[1:5]
src=f"/tmp/seed-{ID}-out"; dst=f"/verif/seeded/{name}"
os.makedirs(dst,exist_ok=True)
for f in ("patch.diff","demo.diff","verify.txt"):
    if os.path.exists(f"{src}/{f}"): shutil.copy(f"{src}/{f}",f"{dst}/{f}")
m=json.load(open(f"{src}/meta.json"))
ver=open(f"{src}/verify.txt").read() if os.path.exists(f"{src}/verify.txt") else ""
out={"property":m.get("property",ID),"summary":m.get("summary"),"needs_to_manifest":m.get("needs_to_manifest"),"files":m.get("files"),
 "demonstration":{"cmd":m.get("demo_cmd"),"with_change":m.get("demo_result_with_change"),"without_change":m.get("demo_result_without_change")},
 "confirmed_by_me":{"what_i_ran":f"tools/verify_seed.sh {ID}: full `cargo test -p azure-proxy-agent --offline` in the scratch worktree with the change and with patch.diff reverse-applied; compared per-test results","result":ver},
 "checks_run_against_it":{"how":"tools/try_patch.sh patch.diff <PROP...>: git -C /repo apply, ./bin/check <PROP> quick, git -C /repo checkout -- .","caught_by":[c for c in caught.split(",") if c],"note":note},
 "origin":"written by an independent sub-agent that was given only the property text and a scratch worktree"}
json.dump(out,open(f"{dst}/meta.json","w"),indent=1)
print("kept",dst)
