#!/bin/bash
# usage: tools/try_patch.sh <patch.diff> <PROP> [PROP...]   -- applies a seeded change to /repo, runs the quick checks, reverts
set -u
patch="$1"; shift
cd /repo || exit 2
if [ -n "$(git status --porcelain)" ]; then echo "/repo has uncommitted changes"; exit 2; fi
git apply "$patch" || { echo "patch does not apply"; exit 2; }
cd /verif
rc=0
for p in "$@"; do
  VERIF_NO_EVIDENCE=1 ./bin/check "$p" quick 2>&1 | grep -E '^(violation:|VIOLATION|KNOWN|C[0-9]+:|HARNESS)' | cut -c1-400
done
git -C /repo checkout -- .
git -C /repo status --porcelain
