#!/bin/bash
# usage: tools/verify_seed.sh <ID> <crate>  -- confirms in the scratch worktree /tmp/seed-<ID> that the demonstration
# fails with the seeded change and passes without it, and that no other test changes; writes /tmp/seed-<ID>-out/verify.txt
ID=$1; CRATE=${2:-azure-proxy-agent}
W=/tmp/seed-$ID; O=/tmp/seed-$ID-out
cd $W || exit 2
run() { cargo test -p $CRATE --offline 2>&1 | grep -E '^test .* \.\.\. (ok|FAILED)' | sort; }
run > $O/v_with.txt
git apply -R $O/patch.diff || { echo "cannot reverse patch" > $O/verify.txt; exit 2; }
run > $O/v_without.txt
git apply $O/patch.diff
{
 echo "with change:    $(grep -c ' ok$' $O/v_with.txt) ok, $(grep -c FAILED $O/v_with.txt) failed"
 echo "without change: $(grep -c ' ok$' $O/v_without.txt) ok, $(grep -c FAILED $O/v_without.txt) failed"
 echo "tests whose result differs (without -> with):"
 diff $O/v_without.txt $O/v_with.txt
} > $O/verify.txt
cat $O/verify.txt
