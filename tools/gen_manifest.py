#!/usr/bin/env python3
"""Regenerates /verif/MANIFEST.json from the table below (claimed checks) and properties.jsonl."""
import json
props=[json.loads(l) for l in open('/verif/properties.jsonl')]
A="seeded search over schedules, workloads and fault sequences of the real agent in a deterministic simulator: "
TAIL=" Evidence over the sampled seeds, not a proof; every violation comes with a minimised replay file that reproduces it exactly."
NOTE_A="trusted: tokio current-thread scheduler and paused clock; the in-memory transport's TCP contract; the host model (follows the protocol comments in the repository); await-granularity interleaving on one thread; BPF helper/map model"
TECH="deterministic simulation with fault injection (seeded schedule/fault search, history oracle against a reference model)"
claimed={
 "C01":("agent-sim","exploration",A+"attributed/direct/self/other connections x rule documents x callers; history check of the host receive log, client statuses and upstream byte counts against the reference policy.","§8 C01",NOTE_A,TECH),
 "C02":("agent-sim","exploration",A+"rule-heavy documents served to the real agent, requests derived from the rules, each set repeated under an equivalent permuted document; plus the public decision function called in-run on the same triples under the run's seeded hash order; compared with an independent executable RBAC specification.","§8 C02",NOTE_A,TECH),
 "C03":("agent-sim","exploration",A+"non-elevated callers against WireServer/HostGAPlugin and injected self-destination records under generated modes/defaults/grants, with an elevated control group.","§8 C03",NOTE_A,TECH),
 "C04":("agent-sim","exploration",A+"every relayed request and every own call verified at the simulated host with an independent SHA-256/HMAC and canonicaliser working from the raw bytes received.","§8 C04",NOTE_A,TECH),
 "C05":("agent-sim","exploration",A+"adversarial copies of the three proxy-owned headers from elevated and non-elevated callers; raw header lines checked at the host; wall-clock window for the date header.","§8 C05",NOTE_A,TECH),
 "C07":("agent-sim","exploration",A+"histories over a 1-4 port ephemeral range: port reuse after close, clients that vanish before their record is consumed, keep-alive connections, simultaneous accepts, under perturbed schedules.","§8 C07",NOTE_A,TECH),
 "C09":("agent-sim","exploration",A+"host status histories (versions, enable/disable flips, rules replaced/removed, key rotation with and without the local file) with per-step failures; at clean points the agent's state (public state API, policy map it wrote, probe requests) must be a function of the latest document; a failed poll must change nothing.","§8 C09",NOTE_A,TECH),
 "C10":("agent-sim","exploration",A+"request load on keep-alive connections overlapping key rotation / clearing / re-latching under heavy and PCT-like scheduling; the host verifies each MAC under the key registered for the announced id and also tries every other issued key to recognise a crossed pair.","§8 C10",NOTE_A,TECH),
 "C11":("agent-sim","exploration",A+"denial histories per mode incl. bursts and concurrent connections; failed-authorization summary from the agent's state API and from status.json compared with reference counts.","§8 C11",NOTE_A,TECH),
 "C12":("agent-sim","exploration",A+"taint scan of every byte the process writes outside the key files (logs, events, status and tag files, console, stdout/stderr), every byte returned to clients and every telemetry upload, under defective key documents, non-hex keys, attest failures, rotation and disable/enable; directory restriction order from the disk trace.","§8 C12",NOTE_A,TECH),
 "C13":("agent-sim","exploration",A+"hostile client headers/URLs, process-table names with multi-byte characters across the 1024/4096 byte cuts, non-UTF-8 paths, hostile host bodies and charsets, coarse clock; oracle = panic hook never fires in any scenario + liveness after the hostile phase.","§8 C13",NOTE_A,TECH),
 "C14":("agent-sim","exploration",A+"byte-exact comparison of what client/host sent and what host/client received, content-length and chunked, pipelines on keep-alive connections, fragmentation/latency/short I/O on both legs.","§8 C14",NOTE_A,TECH),
 "C15":("agent-sim","exploration",A+"body lengths around the limits, declared and chunked, exempt and non-exempt targets.","§8 C15",NOTE_A,TECH),
}
import os
extra_path='/verif/tools/manifest_extra.json'
if os.path.exists(extra_path):
    for k,v in json.load(open(extra_path)).items(): claimed[k]=tuple(v)
na_reasons={"C20":"pure sequential automaton over an input sequence: no schedule, clock, I/O, peer or fault for a simulator to own (DESIGN.md §8 C20); exhaustive enumeration against a reference automaton (model checking) is the technique that settles it, and this task does not switch technique"}
engines={}
checks=[]
for pid,(eng,cat,text,ref,note,tech) in sorted(claimed.items()):
    engines.setdefault(eng,[]).append(pid)
    checks.append({"property_id":pid,"quick_cmd":f"./bin/check {pid} quick","thorough_cmd":f"./bin/check {pid} thorough","evidence_file":f"/verif/evidence/{pid}.json","replay_cmd_template":"./bin/check replay {path}","engine":eng,
      "level_claimed":{"category":cat,"text":text+TAIL,"design_ref":ref},"level_note":note,"technique":tech})
kinds={"agent-sim":("/verif/sim/harness","deterministic simulation of the whole agent (real code) with seeded scheduler perturbation, virtual clocks, in-memory network, simulated kernel hook (the repository's C program compiled natively), simulated hosts and clients, fault injection; batch driver simctl runs seeds in parallel, minimises and writes replay files"),
       "ebpf-sim":("/verif/sim/ebpf-sim","the repository's eBPF C program compiled natively, run by simulated kernel threads under shuttle's seeded schedulers against a model of the BPF helpers and maps, with the real user-space encoders/decoders on the other side of the maps"),
       "setup-sim":("/verif/sim/setup-sim","the real proxy_agent_setup binary in a private mount namespace with a stand-in service manager, seeded command histories against a file-tree reference model")}
m={"version":1,
 "setup_cmd":"cd /verif/sim && CARGO_NET_OFFLINE=true cargo build --release --offline && : > /verif/.build/target/release/ebpf_cgroup.o && cd /repo && CARGO_NET_OFFLINE=true CARGO_TARGET_DIR=/verif/.build/setup-target cargo build -p proxy_agent_setup --release --offline",
 "hooks":{"guard":"azure_guestproxyagent_verif","enable":"none needed: zero hooks; repository sources are compiled unmodified through shadow manifests with substituted dependencies (tokio facade, aya/sysinfo/uzers stand-ins), libc seams are defined in the harness executable","baseline_off_cmd":"cd /repo && cargo test --workspace --no-fail-fast --offline","source_commits":[],"add_only":True},
 "engines":[{"name":e,"path":kinds[e][0],"serves_properties":sorted(ps),"kind_free_text":kinds[e][1]} for e,ps in engines.items()],
 "checks":checks,
 "notes":"Checks rebuild the simulator from /repo's working tree on every invocation (cargo tracks /repo sources by mtime). Zero hooks in /repo: all seams sit below the repository code (dependency substitution through shadow manifests, libc symbols, mount namespace). Exit 2 = harness error. Genuine defects found are repaired by 'fix:' commits in /repo or listed in /verif/known_findings.json.",
 "not_applicable":[{"property_id":p["id"],"reason":na_reasons.get(p["id"],"check under construction (will be claimed once built, shown deterministic and sensitive)")} for p in props if p["id"] not in claimed]}
json.dump(m,open('/verif/MANIFEST.json','w'),indent=1)
print("claimed",sorted(claimed), "not claimed",[e["property_id"] for e in m["not_applicable"]])
