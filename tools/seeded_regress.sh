#!/bin/bash
# usage: tools/seeded_regress.sh [name-prefix]  -- applies every kept seeded change in turn and expects the check(s) named in its
# meta.json (caught_by[0]) to exit 1; prints one line per change. Run with nothing else building.
cd /verif
fail=0
for d in seeded/${1:-}*/; do
  n=$(basename $d)
  p=$(python3 -c "import json;c=json.load(open('$d/meta.json'))['checks_run_against_it']['caught_by'];print(c[0] if c else '')")
  if [ -z "$p" ]; then echo "$n: documented as not caught (outside the simulator's model), skipped"; continue; fi
  if [ -n "$(git -C /repo status --porcelain)" ]; then echo "/repo dirty"; exit 2; fi
  git -C /repo apply /verif/$d/patch.diff || { echo "$n: patch does not apply"; fail=1; continue; }
  VERIF_NO_EVIDENCE=1 ./bin/check $p quick > /tmp/seeded_regress.out 2>&1; rc=$?
  git -C /repo checkout -- .
  echo "$n: $p exit $rc $(grep -o "violations=[0-9]*" /tmp/seeded_regress.out | tail -1) $(grep -m1 "^violation:" /tmp/seeded_regress.out | cut -c1-110)"
  [ $rc -eq 1 ] || fail=1
done
rm -rf /verif/replays /tmp/seeded_regress.out
exit $fail
